package main

import (
	"context"
	"errors"
	"fmt"
	"sort"
	"strconv"
	"strings"
	"sync"
	"time"

	"github.com/go-kit/log"
	"github.com/prometheus/client_golang/prometheus"
	"github.com/prometheus/client_golang/prometheus/testutil"

	"github.com/grafana/dskit/kv"
	"github.com/grafana/dskit/kv/consul"
	"github.com/grafana/dskit/ring"
	"github.com/grafana/dskit/services"
)

// C15: routing to the next active partition; partition state machine; owner-based replication sets.
//
//	C15.route <pdesc> <keys> <->                  ||  <ActivePartitionForKey per key> <GetKeysByPartition>
//	C15.hist  <initial pdesc> <lifecyclers> <ops> ||  <res@pdesc after every op, joined by #>
//	C15.cas   <initial pdesc> <lifecyclers> <conflicting write;handler> ||  as C15.hist (the handler's CAS function was re-run after the conflict)
//	C15.sub   <initial pdesc> <lifecyclers> <E...@t0:t1@t0ms;R,ci,sec@t0:t1@nowms;...> ||  as C15.hist; clocks with a sub-second part (ms)
//	C15.loop  <initial pdesc> <lifecycler,create,remove> <script> || <res@pdesc after every action + one full tick>
//	C15.repl  <pdesc> <instances> <healthy-states,timeout> || <replication sets | err>
//	C15.mrepl <pdesc> <instances> <healthy-states,partition> || <instances in order;maxUnavailableZones | err>
//
// All timestamps of a history are written relative to the wall-clock second at which the history started.
// Every op carries "@t0:t1", the wall-clock bracket (seconds) of the call that performed it. Op "D" is a
// waitPartitionAndRegisterOwner call that STARTED while the partition did not exist and registered only after
// another lifecycler created it >= 1.2 s later; its extra field is the second at which the partition became visible.
func init() {
	register("C15", runC15)
	register("C15.tables", c15Tables)
}

var c15States = []ring.PartitionState{ring.PartitionUnknown, ring.PartitionPending, ring.PartitionActive, ring.PartitionInactive, ring.PartitionDeleted}

func c15Tables(e *env) {
	var rows []string
	for _, f := range c15States {
		for _, t := range c15States {
			rows = append(rows, fmt.Sprintf("(%d, %d, %v)", int(f), int(t), ring.VerifIsPartitionStateChangeAllowed(f, t)))
		}
	}
	e.emit("def allowedTable : List (Nat × Nat × Bool) := [" + strings.Join(rows, ", ") + "]")
	e.emit(fmt.Sprintf("def statePending : Nat := %d\ndef stateActive : Nat := %d\ndef stateInactive : Nat := %d\ndef stateDeleted : Nat := %d\ndef ownerActive : Nat := %d",
		int(ring.PartitionPending), int(ring.PartitionActive), int(ring.PartitionInactive), int(ring.PartitionDeleted), int(ring.OwnerActive)))
}

func c15Err(err error) string {
	switch {
	case err == nil:
		return "ok"
	case errors.Is(err, ring.ErrPartitionDoesNotExist):
		return "partitionDoesNotExist"
	case errors.Is(err, ring.ErrPartitionStateChangeNotAllowed):
		return "stateChangeNotAllowed"
	case errors.Is(err, ring.ErrPartitionStateChangeLocked):
		return "locked"
	case errors.Is(err, context.DeadlineExceeded), errors.Is(err, context.Canceled):
		return "ctx"
	case errors.Is(err, ring.ErrNoActivePartitionFound):
		return "noActivePartition"
	case errors.Is(err, ring.ErrEmptyRing):
		return "emptyRing"
	case errors.Is(err, ring.ErrTooManyUnhealthyInstances):
		return "tooManyUnhealthy"
	}
	return "other(" + err.Error() + ")"
}

// ---- routing ----

func c15Route(e *env, d *ring.PartitionRingDesc, keys []uint32) {
	pr, err := ring.NewPartitionRing(*d)
	if err != nil {
		panic(err)
	}
	owners := make([]string, len(keys))
	for i, k := range keys {
		p, err := pr.ActivePartitionForKey(k)
		if err != nil {
			owners[i] = "!"
		} else {
			owners[i] = itoa(int(p))
		}
	}
	br := ring.NewActivePartitionBatchRing(pr)
	groups, err := br.GetKeysByPartition(context.Background(), keys)
	gs := "err:" + c15Err(err)
	if err == nil {
		sort.Slice(groups, func(a, b int) bool { return groups[a].PartitionID < groups[b].PartitionID })
		ps := make([]string, len(groups))
		for i, g := range groups {
			ix := make([]string, len(g.Indexes))
			for j, x := range g.Indexes {
				ix[j] = itoa(x)
			}
			ps[i] = itoa(int(g.PartitionID)) + ":" + strings.Join(ix, "+")
		}
		gs = "ok:" + strings.Join(ps, ";")
		if len(ps) == 0 {
			gs = "ok:-"
		}
	}
	os := "-"
	if len(keys) > 0 {
		os = strings.Join(owners, ",")
	}
	e.emit("C15.route", c14EncPDesc(d), u32s(keys), "-", os, gs)
}

func c15GenRoute(e *env) {
	r := newRng(e.seed, 1501)
	states := []ring.PartitionState{ring.PartitionActive, ring.PartitionInactive, ring.PartitionPending}
	// exhaustive: <=3 partitions over the boundary alphabet, every state mix
	n := len(c14Alphabet)
	total := 1
	for i := 0; i < n; i++ {
		total *= 4
	}
	for code := 0; code < total; code++ {
		if e.quick && code%3 != int(e.seed%3) { // a third of the layouts per quick run (all of them in thorough)
			continue
		}
		owner := make([]int, n)
		c, next, ok := code, 0, true
		for i := 0; i < n; i++ {
			owner[i] = c%4 - 1
			c /= 4
			if owner[i] > next {
				ok = false
				break
			}
			if owner[i] == next {
				next++
			}
		}
		if !ok || next == 0 {
			continue
		}
		mixes := 1
		for k := 0; k < next; k++ {
			mixes *= 3
		}
		for m := 0; m < mixes; m++ {
			var ps []c14Part
			var toks []uint32
			mm := m
			for k := 0; k < next; k++ {
				p := c14Part{id: int32(k), state: states[mm%3]}
				mm /= 3
				for i := 0; i < n; i++ {
					if owner[i] == k {
						p.tokens = append(p.tokens, c14Alphabet[i])
					}
				}
				ps = append(ps, p)
				toks = append(toks, p.tokens...)
			}
			keys := c14Keys(r, toks, 100, 0)
			c15Route(e, c14PDesc(ps), keys)
		}
	}
	// random: 1..20 partitions, runs of non-active partitions around the wrap
	cnt := 1500 * e.scale
	for c := 0; c < cnt; c++ {
		np := 1 + r.intn(20)
		pActive := []int{0, 1, 3, 5, 9, 10}[r.intn(6)] // out of 10
		d := ring.NewPartitionRingDesc()
		used := map[uint32]bool{}
		var toks []uint32
		small := r.chance(1, 2)
		for k := 0; k < np; k++ {
			id := int32(k)
			if r.chance(1, 6) {
				id += int32(100 * (1 + r.intn(3)))
			}
			st := ring.PartitionActive
			if r.intn(10) >= pActive {
				st = pick(r, []ring.PartitionState{ring.PartitionInactive, ring.PartitionPending, ring.PartitionInactive, ring.PartitionDeleted})
			}
			p := ring.PartitionDesc{Id: id, State: st, StateTimestamp: 10}
			nt := r.intn(5)
			if c%25 == 0 {
				d.AddPartition(id, st, time.Unix(10, 0))
				p = d.Partitions[id]
				if len(toks) < 64 {
					toks = append(toks, p.Tokens[:8]...)
				}
				continue
			}
			for j := 0; j < nt; j++ {
				for tries := 0; tries < 50; tries++ {
					var t uint32
					if small && r.chance(3, 4) {
						t = pick(r, boundaryTokens)
					} else {
						t = r.u32()
					}
					if used[t] {
						continue
					}
					used[t] = true
					p.Tokens = append(p.Tokens, t)
					break
				}
			}
			sort.Slice(p.Tokens, func(a, b int) bool { return p.Tokens[a] < p.Tokens[b] })
			toks = append(toks, p.Tokens...)
			d.Partitions[id] = p
		}
		keys := c14Keys(r, toks, 10, 5)
		if r.chance(1, 20) {
			keys = nil
		}
		if r.chance(1, 4) && len(keys) > 0 { // duplicates and unsorted order for GetKeysByPartition
			for i := 0; i < 4; i++ {
				keys = append(keys, keys[r.intn(len(keys))])
			}
			for i := len(keys) - 1; i > 0; i-- {
				j := r.intn(i + 1)
				keys[i], keys[j] = keys[j], keys[i]
			}
		}
		c15Route(e, d, keys)
	}
}

// ---- histories ----

type c15LC struct {
	pid                             int32
	instance                        string
	multi                           bool
	waitCount, waitDur, deleteAfter int
	l                               *ring.PartitionInstanceLifecycler
}

func (c *c15LC) ownerID() string {
	if c.multi {
		return c.instance + "/" + itoa(int(c.pid))
	}
	return c.instance
}

// rebase subtracts base from every timestamp of the descriptor (copy).
func c15Rebase(d *ring.PartitionRingDesc, base int64) *ring.PartitionRingDesc {
	o := ring.NewPartitionRingDesc()
	for id, p := range d.Partitions {
		p.StateTimestamp -= base
		if p.StateChangeLockedTimestamp != 0 || p.StateChangeLocked {
			p.StateChangeLockedTimestamp -= base
		}
		o.Partitions[id] = p
	}
	for id, ow := range d.Owners {
		ow.UpdatedTimestamp -= base
		o.Owners[id] = ow
	}
	return o
}

func c15History(e *env, r *rng) {
	logger := log.NewNopLogger()
	store, closer := consul.NewInMemoryClient(ring.GetPartitionRingCodec(), logger, nil)
	defer closer.Close()
	ctx := context.Background()
	const key = "pring"
	base := time.Now().Unix()

	// initial descriptor (relative timestamps; stored with absolute ones)
	init := ring.NewPartitionRingDesc()
	relTs := []int64{-1000, -11, -10, -9, -6, -5, -4, 0}
	np := r.intn(5)
	for k := 0; k < np; k++ {
		id := int32(r.intn(4))
		st := pick(r, []ring.PartitionState{ring.PartitionPending, ring.PartitionActive, ring.PartitionInactive, ring.PartitionInactive})
		p := ring.PartitionDesc{Id: id, State: st, StateTimestamp: base + pick(r, relTs), Tokens: []uint32{uint32(id)*1000 + 1, uint32(id)*1000 + 2}}
		if r.chance(1, 5) {
			p.StateChangeLocked = true
			p.StateChangeLockedTimestamp = base + pick(r, relTs)
		} else if r.chance(1, 5) {
			p.StateChangeLockedTimestamp = base + pick(r, relTs)
		}
		init.Partitions[id] = p
	}
	instances := []string{"ing-a-0", "ing-a-1", "ing-b-0", "ing-b-1"}
	no := r.intn(4)
	for k := 0; k < no; k++ {
		inst := pick(r, instances)
		pid := int32(r.intn(4))
		id := inst
		if r.chance(1, 3) {
			id = inst + "/" + itoa(int(pid))
		}
		st := ring.OwnerActive
		if r.chance(1, 8) {
			st = ring.OwnerDeleted
		}
		init.Owners[id] = ring.OwnerDesc{OwnedPartition: pid, State: st, UpdatedTimestamp: base + pick(r, relTs)}
	}
	initClone := c15Rebase(init, 0) // copy
	if err := store.CAS(ctx, key, func(interface{}) (interface{}, bool, error) { return initClone, true, nil }); err != nil {
		panic(err)
	}

	// lifecyclers
	nl := 1 + r.intn(4)
	lcs := make([]*c15LC, nl)
	lcStr := make([]string, nl)
	for k := range lcs {
		c := &c15LC{pid: int32(r.intn(4)), instance: pick(r, instances), multi: r.chance(1, 3),
			waitCount: r.intn(3), waitDur: pick(r, []int{0, 5, 10}), deleteAfter: pick(r, []int{0, 5, 5, 10})}
		c.l = ring.NewPartitionInstanceLifecycler(ring.PartitionInstanceLifecyclerConfig{
			PartitionID: c.pid, InstanceID: c.instance, MultiPartitionOwnership: c.multi,
			WaitOwnersCountOnPending: c.waitCount, WaitOwnersDurationOnPending: time.Duration(c.waitDur) * time.Second,
			DeleteInactivePartitionAfterDuration: time.Duration(c.deleteAfter) * time.Second, PollingInterval: time.Hour,
		}, "verif", key, store, logger, nil)
		lcs[k] = c
		m := "0"
		if c.multi {
			m = "1"
		}
		lcStr[k] = strings.Join([]string{itoa(int(c.pid)), c.instance, m, itoa(c.waitCount), itoa(c.waitDur), itoa(c.deleteAfter)}, ",")
	}
	editor := ring.NewPartitionRingEditor(key, store)

	get := func() *ring.PartitionRingDesc {
		v, err := store.Get(ctx, key)
		if err != nil {
			panic(err)
		}
		return ring.GetOrCreatePartitionRingDesc(v)
	}
	// the timestamp the code wrote in this step (relative), or rel(t0) if it wrote none
	readBack := func(old, cur *ring.PartitionRingDesc, t0 int64) int64 {
		for id, p := range cur.Partitions {
			q, ok := old.Partitions[id]
			if !ok || q.State != p.State {
				return p.StateTimestamp - base
			}
			if q.StateChangeLocked != p.StateChangeLocked {
				return p.StateChangeLockedTimestamp - base
			}
		}
		for id, o := range cur.Owners {
			q, ok := old.Owners[id]
			if !ok || q != o {
				return o.UpdatedTimestamp - base
			}
		}
		return t0 - base
	}

	nops := 3 + r.intn(10)
	var ops, obs []string
	virt := []int64{-20, -6, -5, -4, -1, 0, 1, 4, 5, 6, 9, 10, 11, 20, 100}
	toStates := []ring.PartitionState{ring.PartitionPending, ring.PartitionActive, ring.PartitionInactive, ring.PartitionActive, ring.PartitionInactive, ring.PartitionDeleted}
	for i := 0; i < nops; i++ {
		old := get()
		t0 := time.Now().Unix()
		var op, res string
		c := pick(r, lcs)
		ci := 0
		for k := range lcs {
			if lcs[k] == c {
				ci = k
			}
		}
		switch r.intn(13) {
		case 0, 1: // editor: change state
			pid, to := int32(r.intn(4)), pick(r, toStates)
			err := editor.ChangePartitionState(ctx, pid, to)
			res = c15Err(err)
			op = fmt.Sprintf("E,%d,%d,%d", pid, int(to), readBack(old, get(), t0))
		case 2: // editor: lock/unlock
			pid, lk := int32(r.intn(4)), r.chance(1, 2)
			err := editor.SetPartitionStateChangeLock(ctx, pid, lk)
			res = c15Err(err)
			b := 0
			if lk {
				b = 1
			}
			op = fmt.Sprintf("L,%d,%d,%d", pid, b, readBack(old, get(), t0))
		case 3: // editor: remove a multi-partition owner
			inst, pid := pick(r, instances), int32(r.intn(4))
			res = c15Err(editor.RemoveMultiPartitionOwner(ctx, inst, pid))
			op = fmt.Sprintf("M,%s,%d", inst, pid)
		case 4, 5: // lifecycler start (create)
			err := c.l.VerifCreatePartitionAndRegisterOwner(ctx)
			res = c15Err(err)
			cur := get()
			ntok := 0
			if _, had := old.Partitions[c.pid]; !had {
				ntok = len(cur.Partitions[c.pid].Tokens)
			}
			op = fmt.Sprintf("C,%d,%d,%d", ci, ntok, readBack(old, cur, t0))
		case 6: // lifecycler start (wait for the partition)
			wctx, cancel := ctx, context.CancelFunc(func() {})
			if _, ok := old.Partitions[c.pid]; !ok {
				wctx, cancel = context.WithTimeout(ctx, 2*time.Millisecond)
			}
			err := c.l.VerifWaitPartitionAndRegisterOwner(wctx)
			cancel()
			res = c15Err(err)
			op = fmt.Sprintf("W,%d,%d", ci, readBack(old, get(), t0))
		case 7, 8, 9: // reconcile owned partition under a virtual clock
			now := pick(r, virt)
			if r.chance(2, 3) { // aim at the promotion boundary of one registered owner of the partition
				for _, o := range old.Owners {
					if o.OwnedPartition == c.pid {
						now = o.UpdatedTimestamp - base + int64(c.waitDur) + int64(r.intn(4)) - 1
						break
					}
				}
			}
			before := testutil.ToFloat64(c.l.VerifReconcilesFailedTotal().WithLabelValues("owned-partition"))
			c.l.VerifReconcileOwnedPartition(ctx, time.Unix(base+now, 0))
			res = "ok"
			if testutil.ToFloat64(c.l.VerifReconcilesFailedTotal().WithLabelValues("owned-partition")) != before {
				res = "failed"
			}
			op = fmt.Sprintf("O,%d,%d", ci, now)
		case 10, 11: // reconcile other partitions
			now := pick(r, virt)
			if r.chance(2, 3) { // aim at the deletion boundary of one inactive partition
				for _, p := range old.Partitions {
					if p.State == ring.PartitionInactive {
						now = p.StateTimestamp - base + int64(c.deleteAfter) + int64(r.intn(4)) - 1
						break
					}
				}
			}
			before := testutil.ToFloat64(c.l.VerifReconcilesFailedTotal().WithLabelValues("other-partitions"))
			c.l.VerifReconcileOtherPartitions(ctx, time.Unix(base+now, 0))
			res = "ok"
			if testutil.ToFloat64(c.l.VerifReconcilesFailedTotal().WithLabelValues("other-partitions")) != before {
				res = "failed"
			}
			op = fmt.Sprintf("R,%d,%d", ci, now)
		default: // stopping
			rm := r.chance(3, 4)
			c.l.SetRemoveOwnerOnShutdown(rm)
			res = c15Err(c.l.VerifStopping())
			b := 0
			if rm {
				b = 1
			}
			op = fmt.Sprintf("S,%d,%d", ci, b)
		}
		t1 := time.Now().Unix()
		ops = append(ops, fmt.Sprintf("%s@%d:%d", op, t0-base, t1-base))
		obs = append(obs, res+"@"+encPDescOpt(c15Rebase(get(), base), true))
	}
	e.emit("C15.hist", encPDescOpt(c15Rebase(init, base), true), strings.Join(lcStr, ";"), strings.Join(ops, ";"), strings.Join(obs, "#"))
}

// c15SlowWait: lifecycler A starts waitPartitionAndRegisterOwner (creation on startup disabled) while its
// partition does not exist; lifecycler B creates the partition only `delay` (1.2..2.0 s, real time) later; A then
// registers; reconcile ticks of A follow under a virtual clock placed at the promotion boundary of the TRUE
// registration time. Returns the fields of one C15.hist line.
func c15SlowWait(seed uint64, idx int) []string {
	r := newRng(seed, uint64(1510+idx))
	logger := log.NewNopLogger()
	store, closer := consul.NewInMemoryClient(ring.GetPartitionRingCodec(), logger, nil)
	defer closer.Close()
	ctx := context.Background()
	const key = "pring"
	pid := int32(r.intn(4))
	waitDur := 1 + r.intn(2)
	multi := r.chance(1, 3)
	mk := func(inst string, waitCount int) *c15LC {
		c := &c15LC{pid: pid, instance: inst, multi: multi, waitCount: waitCount, waitDur: waitDur, deleteAfter: 0}
		c.l = ring.NewPartitionInstanceLifecycler(ring.PartitionInstanceLifecyclerConfig{
			PartitionID: c.pid, InstanceID: c.instance, MultiPartitionOwnership: c.multi,
			WaitOwnersCountOnPending: c.waitCount, WaitOwnersDurationOnPending: time.Duration(c.waitDur) * time.Second,
			PollingInterval: 10 * time.Millisecond,
		}, "verif", key, store, logger, nil)
		c.l.SetCreatePartitionOnStartup(false)
		return c
	}
	a, b := mk("ing-a-0", 1), mk("ing-b-0", 1+r.intn(2))
	lcStr := func(c *c15LC) string {
		m := "0"
		if c.multi {
			m = "1"
		}
		return strings.Join([]string{itoa(int(c.pid)), c.instance, m, itoa(c.waitCount), itoa(c.waitDur), itoa(c.deleteAfter)}, ",")
	}
	get := func() *ring.PartitionRingDesc {
		v, err := store.Get(ctx, key)
		if err != nil {
			panic(err)
		}
		return ring.GetOrCreatePartitionRingDesc(v)
	}
	init := ring.NewPartitionRingDesc()
	if err := store.CAS(ctx, key, func(interface{}) (interface{}, bool, error) { return ring.NewPartitionRingDesc(), true, nil }); err != nil {
		panic(err)
	}
	delay := time.Duration(1200+r.intn(800)) * time.Millisecond

	base := time.Now().Unix()
	started := make(chan int64)
	type waitRes struct {
		err error
		t1  int64
	}
	done := make(chan waitRes)
	go func() {
		t0 := time.Now().Unix()
		started <- t0
		err := a.l.VerifWaitPartitionAndRegisterOwner(ctx)
		done <- waitRes{err, time.Now().Unix()}
	}()
	waitT0 := <-started
	time.Sleep(delay)

	var ops, obs []string
	rec := func(op, res string) {
		ops = append(ops, op)
		obs = append(obs, res+"@"+encPDescOpt(c15Rebase(get(), base), true))
	}
	// B creates the partition: from this instant on (and not before) it is visible to A
	tvis := time.Now().Unix()
	errC := b.l.VerifCreatePartitionAndRegisterOwner(ctx)
	tC1 := time.Now().Unix()
	afterCreate := get()
	// the store may already contain A's registration; the version recorded for C is the one B wrote (A's owner removed)
	bOnly := c15Rebase(afterCreate, 0)
	delete(bOnly.Owners, a.ownerID())
	ops = append(ops, fmt.Sprintf("C,1,%d,%d@%d:%d", len(afterCreate.Partitions[pid].Tokens), afterCreate.Partitions[pid].StateTimestamp-base, tvis-base, tC1-base))
	obs = append(obs, c15Err(errC)+"@"+encPDescOpt(c15Rebase(bOnly, base), true))
	wr := <-done
	cur := get()
	ownerTs := cur.Owners[a.ownerID()].UpdatedTimestamp
	rec(fmt.Sprintf("D,0,%d,%d@%d:%d", ownerTs-base, tvis-base, waitT0-base, wr.t1-base), c15Err(wr.err))

	// reconcile ticks of A at the boundary of the true registration time (>= tvis)
	nows := []int64{tvis - base + int64(waitDur), ownerTs - base + int64(waitDur), ownerTs - base + int64(waitDur) + 1, wr.t1 - base + int64(waitDur) + 1}
	for _, now := range nows {
		before := testutil.ToFloat64(a.l.VerifReconcilesFailedTotal().WithLabelValues("owned-partition"))
		t0 := time.Now().Unix()
		a.l.VerifReconcileOwnedPartition(ctx, time.Unix(base+now, 0))
		res := "ok"
		if testutil.ToFloat64(a.l.VerifReconcilesFailedTotal().WithLabelValues("owned-partition")) != before {
			res = "failed"
		}
		rec(fmt.Sprintf("O,0,%d@%d:%d", now, t0-base, time.Now().Unix()-base), res)
	}
	return []string{"C15.hist", encPDescOpt(c15Rebase(init, base), true), lcStr(a) + ";" + lcStr(b), strings.Join(ops, ";"), strings.Join(obs, "#")}
}

// c15RacingStore is a kv.Client that lets another actor write to the store between a run of the caller's CAS
// function and the store's compare-and-swap: the first time the function returns a value to write, `inject`
// performs the conflicting write on the underlying store; the caller's write then loses the compare and the
// store calls the function again on the fresh value (what happens when two actors update the ring at once).
type c15RacingStore struct {
	kv.Client
	inject func()
	fired  bool
	calls  int
}

func (s *c15RacingStore) CAS(ctx context.Context, key string, f func(in interface{}) (out interface{}, retry bool, err error)) error {
	return s.Client.CAS(ctx, key, func(in interface{}) (interface{}, bool, error) {
		s.calls++
		out, retry, err := f(in)
		if err == nil && out != nil && !s.fired {
			s.fired = true
			s.inject()
		}
		return out, retry, err
	})
}

// c15PollStore lets another actor write right after a plain read (kv.Client.Get) returned: the window between the
// poll of waitPartitionAndRegisterOwner (getRing, outside any CAS) and its registration CAS.
type c15PollStore struct {
	kv.Client
	inject func(v interface{}) bool // reports whether it fired
	fired  bool
}

func (s *c15PollStore) Get(ctx context.Context, key string) (interface{}, error) {
	v, err := s.Client.Get(ctx, key)
	if err == nil && !s.fired {
		s.fired = s.inject(v)
	}
	return v, err
}

// c15PollRace: lifecycler A (creation on startup disabled) polls, sees its partition, and before its registration
// CAS another lifecycler's reconcileOtherPartitions deletes that partition (inactive long enough, no owners) — or,
// as a control, an unrelated write lands. Emitted as a two-step history: the interfering write, then "G" = the
// registration CAS of a wait whose poll succeeded earlier.
func c15PollRace(e *env, r *rng) {
	logger := log.NewNopLogger()
	inner, closer := consul.NewInMemoryClient(ring.GetPartitionRingCodec(), logger, nil)
	defer closer.Close()
	ctx := context.Background()
	const key = "pring"
	base := time.Now().Unix()
	multi := r.chance(1, 2)
	target, own := int32(r.intn(2)), int32(2)
	control := r.chance(1, 3)
	init := ring.NewPartitionRingDesc()
	init.Partitions[own] = ring.PartitionDesc{Id: own, State: ring.PartitionActive, StateTimestamp: base - 1000, Tokens: []uint32{2001, 2002}}
	st := ring.PartitionInactive
	if r.chance(1, 4) {
		st = pick(r, []ring.PartitionState{ring.PartitionPending, ring.PartitionActive}) // not deletable
	}
	init.Partitions[target] = ring.PartitionDesc{Id: target, State: st, StateTimestamp: base - 1000, Tokens: []uint32{uint32(target)*1000 + 1}}
	initClone := c15Rebase(init, 0)
	if err := inner.CAS(ctx, key, func(interface{}) (interface{}, bool, error) { return initClone, true, nil }); err != nil {
		panic(err)
	}
	polling := &c15PollStore{Client: inner}
	mk := func(pid int32, inst string, store kv.Client) *c15LC {
		c := &c15LC{pid: pid, instance: inst, multi: multi, waitCount: 1, waitDur: 5, deleteAfter: 5}
		c.l = ring.NewPartitionInstanceLifecycler(ring.PartitionInstanceLifecyclerConfig{
			PartitionID: c.pid, InstanceID: c.instance, MultiPartitionOwnership: c.multi,
			WaitOwnersCountOnPending: c.waitCount, WaitOwnersDurationOnPending: time.Duration(c.waitDur) * time.Second,
			DeleteInactivePartitionAfterDuration: time.Duration(c.deleteAfter) * time.Second, PollingInterval: 5 * time.Millisecond,
		}, "verif", key, store, logger, nil)
		return c
	}
	a := mk(target, "ing-a-0", polling) // waits for `target`
	b := mk(own, "ing-b-0", inner)      // its reconcile deletes inactive owner-less partitions
	editor := ring.NewPartitionRingEditor(key, inner)
	get := func() *ring.PartitionRingDesc {
		v, err := inner.Get(ctx, key)
		if err != nil {
			panic(err)
		}
		return ring.GetOrCreatePartitionRingDesc(v)
	}
	lcStr := func(c *c15LC) string {
		m := "0"
		if c.multi {
			m = "1"
		}
		return strings.Join([]string{itoa(int(c.pid)), c.instance, m, itoa(c.waitCount), itoa(c.waitDur), itoa(c.deleteAfter)}, ",")
	}
	var ops, obs []string
	polling.inject = func(v interface{}) bool {
		if !ring.GetOrCreatePartitionRingDesc(v).HasPartition(target) {
			return false
		}
		t0 := time.Now().Unix()
		if control {
			old := get()
			err := editor.SetPartitionStateChangeLock(ctx, own, true)
			cur := get()
			ts := t0 - base
			if cur.Partitions[own].StateChangeLocked != old.Partitions[own].StateChangeLocked {
				ts = cur.Partitions[own].StateChangeLockedTimestamp - base
			}
			ops = append(ops, fmt.Sprintf("L,%d,1,%d@%d:%d", own, ts, t0-base, time.Now().Unix()-base))
			obs = append(obs, c15Err(err)+"@"+encPDescOpt(c15Rebase(cur, base), true))
			return true
		}
		before := testutil.ToFloat64(b.l.VerifReconcilesFailedTotal().WithLabelValues("other-partitions"))
		b.l.VerifReconcileOtherPartitions(ctx, time.Unix(base, 0))
		res := "ok"
		if testutil.ToFloat64(b.l.VerifReconcilesFailedTotal().WithLabelValues("other-partitions")) != before {
			res = "failed"
		}
		ops = append(ops, fmt.Sprintf("R,1,0@%d:%d", t0-base, time.Now().Unix()-base))
		obs = append(obs, res+"@"+encPDescOpt(c15Rebase(get(), base), true))
		return true
	}
	a.l.SetCreatePartitionOnStartup(false)
	old := get()
	t0 := time.Now().Unix()
	err := a.l.VerifWaitPartitionAndRegisterOwner(ctx)
	if !polling.fired {
		panic("c15PollRace: the poll was not intercepted")
	}
	cur := get()
	ts := time.Now().Unix() - base
	if o, ok := cur.Owners[a.ownerID()]; ok && old.Owners[a.ownerID()] != o {
		ts = o.UpdatedTimestamp - base
	}
	ops = append(ops, fmt.Sprintf("G,0,%d@%d:%d", ts, t0-base, time.Now().Unix()-base))
	obs = append(obs, c15Err(err)+"@"+encPDescOpt(c15Rebase(cur, base), true))
	e.emit("C15.cas", encPDescOpt(c15Rebase(init, base), true), lcStr(a)+";"+lcStr(b), strings.Join(ops, ";"), strings.Join(obs, "#"))
}

// c15CasConflict: one reconcile handler of a real lifecycler runs against a racing store; the conflicting write
// is chosen to invalidate (or, as a control, not to invalidate) the decision the handler took on its first run.
// Emitted as a two-step history (conflicting write, then the handler) with the ring after each.
func c15CasConflict(e *env, r *rng) {
	logger := log.NewNopLogger()
	inner, closer := consul.NewInMemoryClient(ring.GetPartitionRingCodec(), logger, nil)
	defer closer.Close()
	ctx := context.Background()
	const key = "pring"
	base := time.Now().Unix()
	multi := r.chance(1, 2)
	own, target := int32(2), int32(r.intn(2))
	other := 1 - target
	oid := func(inst string, pid int32) string {
		if multi {
			return inst + "/" + itoa(int(pid))
		}
		return inst
	}
	modeOthers := r.chance(1, 2)
	init := ring.NewPartitionRingDesc()
	if modeOthers {
		init.Partitions[own] = ring.PartitionDesc{Id: own, State: ring.PartitionActive, StateTimestamp: base - 1000, Tokens: []uint32{2001, 2002}}
		init.Owners[oid("ing-a-0", own)] = ring.OwnerDesc{OwnedPartition: own, State: ring.OwnerActive, UpdatedTimestamp: base - 1000}
		init.Partitions[target] = ring.PartitionDesc{Id: target, State: ring.PartitionInactive, StateTimestamp: base - 1000, Tokens: []uint32{uint32(target)*1000 + 1}}
		if r.chance(1, 2) {
			init.Partitions[other] = ring.PartitionDesc{Id: other, State: pick(r, []ring.PartitionState{ring.PartitionInactive, ring.PartitionActive}), StateTimestamp: base - 1000, Tokens: []uint32{uint32(other)*1000 + 1}}
		}
	} else {
		init.Partitions[own] = ring.PartitionDesc{Id: own, State: ring.PartitionPending, StateTimestamp: base - 1000, Tokens: []uint32{2001, 2002}}
		init.Owners[oid("ing-b-0", own)] = ring.OwnerDesc{OwnedPartition: own, State: ring.OwnerActive, UpdatedTimestamp: base - 1000}
		if r.chance(1, 3) {
			init.Owners[oid("ing-b-1", own)] = ring.OwnerDesc{OwnedPartition: own, State: ring.OwnerActive, UpdatedTimestamp: base - 1000}
		}
		init.Partitions[other] = ring.PartitionDesc{Id: other, State: ring.PartitionActive, StateTimestamp: base - 1000, Tokens: []uint32{uint32(other)*1000 + 1}}
	}
	initClone := c15Rebase(init, 0)
	if err := inner.CAS(ctx, key, func(interface{}) (interface{}, bool, error) { return initClone, true, nil }); err != nil {
		panic(err)
	}
	racing := &c15RacingStore{Client: inner}
	mk := func(pid int32, inst string, store kv.Client) *c15LC {
		c := &c15LC{pid: pid, instance: inst, multi: multi, waitCount: 1, waitDur: 5, deleteAfter: 5}
		c.l = ring.NewPartitionInstanceLifecycler(ring.PartitionInstanceLifecyclerConfig{
			PartitionID: c.pid, InstanceID: c.instance, MultiPartitionOwnership: c.multi,
			WaitOwnersCountOnPending: c.waitCount, WaitOwnersDurationOnPending: time.Duration(c.waitDur) * time.Second,
			DeleteInactivePartitionAfterDuration: time.Duration(c.deleteAfter) * time.Second, PollingInterval: time.Hour,
		}, "verif", key, store, logger, nil)
		return c
	}
	a := mk(own, "ing-a-0", racing) // the lifecycler whose handler is retried
	b := mk(target, "ing-c-0", inner)
	editor := ring.NewPartitionRingEditor(key, inner)
	get := func() *ring.PartitionRingDesc {
		v, err := inner.Get(ctx, key)
		if err != nil {
			panic(err)
		}
		return ring.GetOrCreatePartitionRingDesc(v)
	}
	lcStr := func(c *c15LC) string {
		m := "0"
		if c.multi {
			m = "1"
		}
		return strings.Join([]string{itoa(int(c.pid)), c.instance, m, itoa(c.waitCount), itoa(c.waitDur), itoa(c.deleteAfter)}, ",")
	}
	var ops, obs []string
	choice := r.intn(4)
	racing.inject = func() {
		old := get()
		t0 := time.Now().Unix()
		var op string
		var err error
		ts := func() int64 { // the timestamp the conflicting write stamped
			cur := get()
			for id, p := range cur.Partitions {
				q := old.Partitions[id]
				if q.State != p.State {
					return p.StateTimestamp - base
				}
				if q.StateChangeLocked != p.StateChangeLocked {
					return p.StateChangeLockedTimestamp - base
				}
			}
			for id, o := range cur.Owners {
				if q, ok := old.Owners[id]; !ok || q != o {
					return o.UpdatedTimestamp - base
				}
			}
			return t0 - base
		}
		if modeOthers {
			switch choice {
			case 0: // an owner registers for the partition about to be deleted
				err = b.l.VerifWaitPartitionAndRegisterOwner(ctx)
				op = fmt.Sprintf("W,1,%d", ts())
			case 1: // the partition about to be deleted is re-activated
				err = editor.ChangePartitionState(ctx, target, ring.PartitionActive)
				op = fmt.Sprintf("E,%d,%d,%d", target, int(ring.PartitionActive), ts())
			case 2: // control: an unrelated write (the decision stays valid)
				err = editor.SetPartitionStateChangeLock(ctx, own, true)
				op = fmt.Sprintf("L,%d,1,%d", own, ts())
			default: // control: the partition is locked (still inactive, still without owners)
				err = editor.SetPartitionStateChangeLock(ctx, target, true)
				op = fmt.Sprintf("L,%d,1,%d", target, ts())
			}
		} else {
			switch choice {
			case 0: // the pending partition gets locked
				err = editor.SetPartitionStateChangeLock(ctx, own, true)
				op = fmt.Sprintf("L,%d,1,%d", own, ts())
			case 1: // the pending partition is switched to inactive by somebody else
				err = editor.ChangePartitionState(ctx, own, ring.PartitionInactive)
				op = fmt.Sprintf("E,%d,%d,%d", own, int(ring.PartitionInactive), ts())
			case 2: // an owner that was counted disappears
				if multi {
					err = editor.RemoveMultiPartitionOwner(ctx, "ing-b-0", own)
					op = fmt.Sprintf("M,ing-b-0,%d", own)
				} else {
					err = editor.SetPartitionStateChangeLock(ctx, own, true)
					op = fmt.Sprintf("L,%d,1,%d", own, ts())
				}
			default: // control: an unrelated write
				err = editor.SetPartitionStateChangeLock(ctx, other, true)
				op = fmt.Sprintf("L,%d,1,%d", other, ts())
			}
		}
		ops = append(ops, fmt.Sprintf("%s@%d:%d", op, t0-base, time.Now().Unix()-base))
		obs = append(obs, c15Err(err)+"@"+encPDescOpt(c15Rebase(get(), base), true))
	}
	typ, hop := "owned-partition", "O"
	if modeOthers {
		typ, hop = "other-partitions", "R"
	}
	before := testutil.ToFloat64(a.l.VerifReconcilesFailedTotal().WithLabelValues(typ))
	t0 := time.Now().Unix()
	if modeOthers {
		a.l.VerifReconcileOtherPartitions(ctx, time.Unix(base, 0))
	} else {
		a.l.VerifReconcileOwnedPartition(ctx, time.Unix(base, 0))
	}
	res := "ok"
	if testutil.ToFloat64(a.l.VerifReconcilesFailedTotal().WithLabelValues(typ)) != before {
		res = "failed"
	}
	if !racing.fired || racing.calls != 2 {
		panic(fmt.Sprintf("c15CasConflict: no retry was provoked (fired=%v calls=%d)", racing.fired, racing.calls))
	}
	ops = append(ops, fmt.Sprintf("%s,0,0@%d:%d", hop, t0-base, time.Now().Unix()-base))
	obs = append(obs, res+"@"+encPDescOpt(c15Rebase(get(), base), true))
	e.emit("C15.cas", encPDescOpt(c15Rebase(init, base), true), lcStr(a)+";"+lcStr(b), strings.Join(ops, ";"), strings.Join(obs, "#"))
}

// c15SubSecond: deletion of an inactive partition with the reconcile clock at NON-whole-second instants. The state
// change to INACTIVE is performed for real (editor.ChangePartitionState) at a wall-clock instant with a sub-second
// part; its start t0 is recorded in MILLISECONDS. Then another lifecycler's reconcileOtherPartitions runs under
// virtual clocks (ms precision) around the boundary: exactly t0+delay, inside (stored second + delay, t0 + delay],
// the whole seconds stored+delay / stored+delay+1 and +-1 ms / +500 ms / +999 ms around them. The stored state timestamp is
// the change truncated to the second, so only `stored second < floor(now - delay)` proves "inactive LONGER than the delay".
// Line = a C15.hist history whose E and R steps carry a third "@" part: E: t0 in ms, R: the reconcile clock in ms
// (both relative to base*1000; the R op's `now` field is floor(ms/1000), what `since.Unix()` compares with).
func c15SubSecond(e *env, r *rng) {
	logger := log.NewNopLogger()
	inner, closer := consul.NewInMemoryClient(ring.GetPartitionRingCodec(), logger, nil)
	defer closer.Close()
	ctx := context.Background()
	const key = "pring"
	// stay away from the second's edges so that the call's start and its time.Now() fall into one second
	if ms := time.Now().UnixMilli() % 1000; ms < 80 || ms > 900 {
		time.Sleep(time.Duration((1080-ms)%1000+20) * time.Millisecond)
	}
	base := time.Now().Unix() - 10
	multi := r.chance(1, 2)
	own, target := int32(2), int32(r.intn(2))
	delay := pick(r, []int{1, 2, 5, 5})
	withOwner := r.chance(1, 6) // control: the partition keeps an owner and must stay
	oid := func(inst string, pid int32) string {
		if multi {
			return inst + "/" + itoa(int(pid))
		}
		return inst
	}
	init := ring.NewPartitionRingDesc()
	init.Partitions[own] = ring.PartitionDesc{Id: own, State: ring.PartitionActive, StateTimestamp: base - 1000, Tokens: []uint32{2001, 2002}}
	init.Owners[oid("ing-a-0", own)] = ring.OwnerDesc{OwnedPartition: own, State: ring.OwnerActive, UpdatedTimestamp: base - 1000}
	init.Partitions[target] = ring.PartitionDesc{Id: target, State: ring.PartitionActive, StateTimestamp: base - 1000, Tokens: []uint32{uint32(target)*1000 + 1}}
	if withOwner {
		init.Owners[oid("ing-c-0", target)] = ring.OwnerDesc{OwnedPartition: target, State: ring.OwnerActive, UpdatedTimestamp: base - 1000}
	}
	initClone := c15Rebase(init, 0)
	if err := inner.CAS(ctx, key, func(interface{}) (interface{}, bool, error) { return initClone, true, nil }); err != nil {
		panic(err)
	}
	mk := func(pid int32, inst string) *c15LC {
		c := &c15LC{pid: pid, instance: inst, multi: multi, waitCount: 1, waitDur: 5, deleteAfter: delay}
		c.l = ring.NewPartitionInstanceLifecycler(ring.PartitionInstanceLifecyclerConfig{
			PartitionID: c.pid, InstanceID: c.instance, MultiPartitionOwnership: c.multi,
			WaitOwnersCountOnPending: c.waitCount, WaitOwnersDurationOnPending: time.Duration(c.waitDur) * time.Second,
			DeleteInactivePartitionAfterDuration: time.Duration(c.deleteAfter) * time.Second, PollingInterval: time.Hour,
		}, "verif", key, inner, logger, nil)
		return c
	}
	a := mk(own, "ing-a-0")
	b := mk(target, "ing-c-0")
	editor := ring.NewPartitionRingEditor(key, inner)
	get := func() *ring.PartitionRingDesc {
		v, err := inner.Get(ctx, key)
		if err != nil {
			panic(err)
		}
		return ring.GetOrCreatePartitionRingDesc(v)
	}
	lcStr := func(c *c15LC) string {
		m := "0"
		if c.multi {
			m = "1"
		}
		return strings.Join([]string{itoa(int(c.pid)), c.instance, m, itoa(c.waitCount), itoa(c.waitDur), itoa(c.deleteAfter)}, ",")
	}
	var ops, obs []string
	t0 := time.Now()
	err := editor.ChangePartitionState(ctx, target, ring.PartitionInactive)
	t1 := time.Now()
	cur := get()
	stored := cur.Partitions[target].StateTimestamp // whole seconds
	t0ms := t0.UnixMilli() - base*1000
	ops = append(ops, fmt.Sprintf("E,%d,%d,%d@%d:%d@%d", target, int(ring.PartitionInactive), stored-base, t0.Unix()-base, t1.Unix()-base, t0ms))
	obs = append(obs, c15Err(err)+"@"+encPDescOpt(c15Rebase(cur, base), true))
	d := int64(delay) * 1000
	sb := (stored - base) * 1000 // the stored second, in ms
	frac := t0ms - sb
	if frac < 1 {
		frac = 1
	}
	cands := []int64{
		t0ms + d,                       // exactly `delay` after the call began: not yet LONGER than the delay
		t0ms + d - int64(r.intn(int(frac))), // inside (stored second + delay, t0 + delay]
		sb + d + 1, sb + d + 500, sb + d + 999, // the boundary second with a sub-second part
		sb + d, sb + d - 1, sb + d - 1000 + 999, // at / just below the boundary second
		sb + d + 1000, sb + d + 1000 + int64(r.intn(1000)), sb + d + 2000 + int64(r.intn(1000)), // long enough whatever the sub-second part was
	}
	n := 2 + r.intn(3)
	var nows []int64
	for i := 0; i < n; i++ {
		if i == n-1 && r.chance(1, 2) {
			nows = append(nows, cands[8+r.intn(3)])
		} else {
			nows = append(nows, cands[r.intn(8)])
		}
	}
	sort.Slice(nows, func(i, j int) bool { return nows[i] < nows[j] })
	for _, now := range nows {
		before := testutil.ToFloat64(a.l.VerifReconcilesFailedTotal().WithLabelValues("other-partitions"))
		c0 := time.Now().Unix()
		a.l.VerifReconcileOtherPartitions(ctx, time.UnixMilli(base*1000+now))
		res := "ok"
		if testutil.ToFloat64(a.l.VerifReconcilesFailedTotal().WithLabelValues("other-partitions")) != before {
			res = "failed"
		}
		sec := now / 1000
		if now < 0 && now%1000 != 0 {
			sec--
		}
		ops = append(ops, fmt.Sprintf("R,0,%d@%d:%d@%d", sec, c0-base, time.Now().Unix()-base, now))
		obs = append(obs, res+"@"+encPDescOpt(c15Rebase(get(), base), true))
	}
	e.emit("C15.sub", encPDescOpt(c15Rebase(init, base), true), lcStr(a)+";"+lcStr(b), strings.Join(ops, ";"), strings.Join(obs, "#"))
}

// c15Loop drives the REAL service of one lifecycler (StartAndAwaitRunning: starting + the select loop of `running`
// with a 3 ms ticker; ChangePartitionState through the actor channel; StopAndAwaitTerminated: ctx.Done + stopping)
// next to editor calls, on an in-memory KV. After every external action it waits until one complete reconcile
// tick that started after the action has finished (the reconciles_total counter advanced by 2) and records the ring.
// Configurations are chosen so that the outcome of a tick does not depend on when exactly it runs (owners and
// state changes are either 1000 s old or fresh, the durations are 500 s). Returns the fields of one C15.loop line.
func c15Loop(seed uint64, idx int) []string {
	r := newRng(seed, uint64(1600+idx))
	logger := log.NewNopLogger()
	store, closer := consul.NewInMemoryClient(ring.GetPartitionRingCodec(), logger, nil)
	defer closer.Close()
	ctx := context.Background()
	const key = "pring"
	base := time.Now().Unix()
	instances := []string{"ing-a-0", "ing-a-1", "ing-b-0"}
	pid := int32(r.intn(3))
	multi := r.chance(1, 3)
	create := r.chance(2, 3)
	remove := r.chance(1, 2)
	waitCount := pick(r, []int{0, 1, 2, 9})
	deleteAfter := pick(r, []int{0, 500})
	inst := "ing-c-9"
	ownerID := inst
	if multi {
		ownerID = inst + "/" + itoa(int(pid))
	}

	init := ring.NewPartitionRingDesc()
	for k := int32(0); k < 3; k++ {
		if k == pid && create && r.chance(1, 2) {
			continue // created by the lifecycler
		}
		if k != pid && r.chance(1, 4) {
			continue
		}
		st := pick(r, []ring.PartitionState{ring.PartitionPending, ring.PartitionPending, ring.PartitionActive, ring.PartitionInactive, ring.PartitionInactive})
		ts := base - 1000
		if r.chance(1, 4) {
			ts = base
		}
		p := ring.PartitionDesc{Id: k, State: st, StateTimestamp: ts, Tokens: []uint32{uint32(k)*1000 + 1, uint32(k)*1000 + 2}}
		if r.chance(1, 6) {
			p.StateChangeLocked, p.StateChangeLockedTimestamp = true, base-1000
		}
		init.Partitions[k] = p
	}
	for k := 0; k < r.intn(4); k++ {
		in, op := pick(r, instances), int32(r.intn(3))
		id := in
		if multi {
			id = in + "/" + itoa(int(op))
		}
		ts := base - 1000
		if r.chance(1, 4) {
			ts = base
		}
		init.Owners[id] = ring.OwnerDesc{OwnedPartition: op, State: ring.OwnerActive, UpdatedTimestamp: ts}
	}
	initClone := c15Rebase(init, 0)
	if err := store.CAS(ctx, key, func(interface{}) (interface{}, bool, error) { return initClone, true, nil }); err != nil {
		panic(err)
	}
	reg := prometheus.NewRegistry()
	l := ring.NewPartitionInstanceLifecycler(ring.PartitionInstanceLifecyclerConfig{
		PartitionID: pid, InstanceID: inst, MultiPartitionOwnership: multi,
		WaitOwnersCountOnPending: waitCount, WaitOwnersDurationOnPending: 500 * time.Second,
		DeleteInactivePartitionAfterDuration: time.Duration(deleteAfter) * time.Second, PollingInterval: 3 * time.Millisecond,
	}, "verif", key, store, logger, reg)
	l.SetCreatePartitionOnStartup(create)
	l.SetRemoveOwnerOnShutdown(remove)
	editor := ring.NewPartitionRingEditor(key, store)

	ownedTicks := func() float64 {
		mfs, err := reg.Gather()
		if err != nil {
			panic(err)
		}
		for _, mf := range mfs {
			if mf.GetName() == "partition_ring_lifecycler_reconciles_total" {
				for _, m := range mf.GetMetric() {
					for _, lp := range m.GetLabel() {
						if lp.GetName() == "type" && lp.GetValue() == "owned-partition" {
							return m.GetCounter().GetValue()
						}
					}
				}
			}
		}
		return 0
	}
	waitFullTick := func() {
		c0 := ownedTicks()
		deadline := time.Now().Add(20 * time.Second)
		for ownedTicks() < c0+2 {
			if time.Now().After(deadline) {
				panic("c15Loop: the lifecycler loop does not tick")
			}
			time.Sleep(time.Millisecond)
		}
	}
	get := func() *ring.PartitionRingDesc {
		v, err := store.Get(ctx, key)
		if err != nil {
			panic(err)
		}
		return ring.GetOrCreatePartitionRingDesc(v)
	}
	var ops, obs []string
	// nowTick: the clock of a promotion performed by a tick in this step (else the end of the step)
	nowTick := func(old, cur *ring.PartitionRingDesc, t1 int64) int64 {
		p, ok := cur.Partitions[pid]
		q, had := old.Partitions[pid]
		if ok && p.State == ring.PartitionActive && (!had || q.State != ring.PartitionActive) {
			return p.StateTimestamp - base
		}
		return t1 - base
	}
	rec := func(op string, res string, t0 int64) {
		ops = append(ops, fmt.Sprintf("%s@%d:%d", op, t0-base, time.Now().Unix()-base))
		obs = append(obs, res+"@"+encPDescOpt(c15Rebase(get(), base), true))
	}

	// start
	old := get()
	t0 := time.Now().Unix()
	if err := services.StartAndAwaitRunning(ctx, l); err != nil {
		panic(err)
	}
	waitFullTick()
	cur := get()
	t1 := time.Now().Unix()
	nowAct := t1 - base
	if o, ok := cur.Owners[ownerID]; ok && old.Owners[ownerID] != o {
		nowAct = o.UpdatedTimestamp - base
	}
	ntok := 0
	if _, had := old.Partitions[pid]; !had {
		ntok = len(cur.Partitions[pid].Tokens)
	}
	rec(fmt.Sprintf("S,%d,%d,%d", ntok, nowAct, nowTick(old, cur, t1)), "ok", t0)

	toStates := []ring.PartitionState{ring.PartitionPending, ring.PartitionActive, ring.PartitionInactive, ring.PartitionActive, ring.PartitionInactive}
	for i, n := 0, 2+r.intn(4); i < n; i++ {
		old = get()
		t0 = time.Now().Unix()
		var op, res string
		var target int32
		switch r.intn(5) {
		case 0, 1: // ChangePartitionState through the actor channel of the running loop
			to := pick(r, toStates)
			res = c15Err(l.ChangePartitionState(ctx, to))
			op, target = fmt.Sprintf("A,%d", int(to)), pid
		case 2: // editor: change any partition
			to := pick(r, toStates)
			target = int32(r.intn(3))
			res = c15Err(editor.ChangePartitionState(ctx, target, to))
			op = fmt.Sprintf("E,%d,%d", target, int(to))
		case 3: // editor: lock / unlock
			target = int32(r.intn(3))
			lk := r.chance(1, 2)
			res = c15Err(editor.SetPartitionStateChangeLock(ctx, target, lk))
			b := 0
			if lk {
				b = 1
			}
			op = fmt.Sprintf("L,%d,%d", target, b)
		default:
			op, res, target = "T", "ok", pid
		}
		mid := get()
		waitFullTick()
		cur = get()
		t1 = time.Now().Unix()
		nowAct = t1 - base
		if p, ok := mid.Partitions[target]; ok {
			q := old.Partitions[target]
			if q.State != p.State {
				nowAct = p.StateTimestamp - base
			} else if q.StateChangeLocked != p.StateChangeLocked {
				nowAct = p.StateChangeLockedTimestamp - base
			}
		}
		rec(fmt.Sprintf("%s,%d,%d", op, nowAct, nowTick(mid, cur, t1)), res, t0)
	}
	t0 = time.Now().Unix()
	if err := services.StopAndAwaitTerminated(ctx, l); err != nil {
		panic(err)
	}
	rec("X", "ok", t0)
	m, cr, rm := "0", "0", "0"
	if multi {
		m = "1"
	}
	if create {
		cr = "1"
	}
	if remove {
		rm = "1"
	}
	lc := strings.Join([]string{itoa(int(pid)), inst, m, itoa(waitCount), "500", itoa(deleteAfter), cr, rm}, ",")
	return []string{"C15.loop", encPDescOpt(c15Rebase(init, base), true), lc, strings.Join(ops, ";"), strings.Join(obs, "#")}
}

// ---- replication sets ----

type c15Reader struct{ r *ring.PartitionRing }

func (c c15Reader) PartitionRing() *ring.PartitionRing { return c.r }

func c15HealthyBits(op ring.Operation) string {
	b := make([]byte, len(allStates))
	for i, s := range allStates {
		if op.IsInstanceInStateHealthy(s) {
			b[i] = '1'
		} else {
			b[i] = '0'
		}
	}
	return string(b)
}

// c15ReplNow: the instant the model uses; the instances' heartbeats are written to the line rebased to it.
const c15ReplNow = int64(2000000000)

func c15Repl(e *env, r *rng) {
	realNow := time.Now().Unix()
	zones := []string{"a", "b", "c"}
	// instances: ids like ing-<zone>-<n>; heartbeat far in the future (healthy) or in 1970 (unhealthy)
	inst := ring.NewDesc()
	var ids []string
	ni := 1 + r.intn(7)
	for k := 0; k < ni; k++ {
		z := pick(r, zones)
		id := "ing-" + z + "-" + itoa(r.intn(4))
		if r.chance(1, 10) {
			id = "solo" // no numeric suffix
		}
		if _, dup := inst.Ingesters[id]; dup {
			continue
		}
		// heartbeat ages (seconds, relative to the real clock read once per case): far in the future, 30 min
		// (inside the 1 h heartbeat timeout), 5 h (outside it, inside a 10 h look-back period), decades
		age := pick(r, []int64{-1000000000, -1000000000, -1000000000, -1000000000, -1000000000, 1800, 1800, 1800, 18000, 18000, realNow - 1000})
		hb := realNow - age
		zone := z
		if r.chance(1, 8) {
			zone = pick(r, zones) // zone not matching the name
		}
		inst.Ingesters[id] = ring.InstanceDesc{Id: id, Addr: "addr-" + id, State: pick(r, []ring.InstanceState{ring.ACTIVE, ring.ACTIVE, ring.ACTIVE, ring.ACTIVE, ring.ACTIVE, ring.LEAVING, ring.PENDING, ring.JOINING}),
			Zone: zone, Timestamp: hb, ReadOnly: r.chance(1, 4), Tokens: []uint32{uint32(k + 1)}}
		ids = append(ids, id)
	}
	multi := r.chance(1, 2)
	d := ring.NewPartitionRingDesc()
	np := 1 + r.intn(4)
	if r.chance(1, 25) {
		np = 0
	}
	for k := 0; k < np; k++ {
		d.Partitions[int32(k)] = ring.PartitionDesc{Id: int32(k), State: pick(r, []ring.PartitionState{ring.PartitionActive, ring.PartitionActive, ring.PartitionInactive, ring.PartitionPending}),
			Tokens: []uint32{uint32(k)*100 + 5}, StateTimestamp: 10}
	}
	no := r.intn(6)
	var forced []int32
	for k := 0; k < np; k++ { // most partitions get 1..3 owners
		if r.chance(9, 10) {
			for j := 0; j <= r.intn(3); j++ {
				forced = append(forced, int32(k))
			}
		}
	}
	for k := 0; k < no+len(forced); k++ {
		cands := ids
		if r.chance(1, 12) {
			cands = append(append([]string(nil), ids...), "ghost-a-1") // an owner that is not in the instance ring
		}
		id := pick(r, cands)
		pid := int32(r.intn(4))
		if k < len(forced) {
			pid = forced[k]
		}
		oid := id
		if multi {
			oid = id + "/" + itoa(int(pid))
		}
		st := ring.OwnerActive
		if r.chance(1, 10) {
			st = pick(r, []ring.OwnerState{ring.OwnerDeleted, ring.OwnerUnknown})
		}
		d.Owners[oid] = ring.OwnerDesc{OwnedPartition: pid, State: st, UpdatedTimestamp: 10}
	}
	op := pick(r, []ring.Operation{ring.Write, ring.Read, ring.Reporting})
	pr, err := ring.NewPartitionRing(*d)
	if err != nil {
		panic(err)
	}
	ir, err := ring.VerifNewRing(ring.Config{HeartbeatTimeout: time.Hour, ReplicationFactor: 1}, cloneDesc(inst), nil)
	if err != nil {
		panic(err)
	}
	// the line carries the heartbeats rebased to c15ReplNow (ages are minutes to decades: the milliseconds a case takes do not matter)
	instLine := ring.NewDesc()
	for id, i := range inst.Ingesters {
		i.Timestamp = i.Timestamp - realNow + c15ReplNow
		instLine.Ingesters[id] = i
	}
	instStr := encDesc(instLine)
	showSets := func(sets []ring.ReplicationSet, err error) string {
		if err != nil {
			return "err:" + c15Err(err)
		}
		ss := make([]string, len(sets))
		for i, s := range sets {
			var in []string
			for _, x := range s.Instances {
				in = append(in, x.Id)
			}
			sort.Strings(in)
			za := 0
			if s.ZoneAwarenessEnabled {
				za = 1
			}
			ss[i] = strings.Join(in, "+") + ":" + itoa(s.MaxUnavailableZones) + ":" + itoa(s.MaxErrors) + ":" + itoa(za)
		}
		sort.Strings(ss)
		return "ok:" + strings.Join(ss, ";")
	}
	if !multi {
		pir := ring.NewPartitionInstanceRing(c15Reader{pr}, ir, time.Hour)
		sets, err := pir.GetReplicationSetsForOperation(op)
		e.emit("C15.repl", c14EncPDesc(d), instStr, c15HealthyBits(op), showSets(sets, err))
		// sub-rings: ShuffleShard and ShuffleShardWithLookback (look-back period smaller / larger than the 1 h
		// heartbeat timeout). Which partitions a sub-ring holds is read from the implementation (shuffle sharding is
		// C12's subject); the model gets the descriptor restricted to them and the SAME heartbeat timeout.
		restrict := func(sub *ring.PartitionInstanceRing) string {
			keep := map[int32]struct{}{}
			for _, id := range sub.PartitionRing().PartitionIDs() {
				keep[id] = struct{}{}
			}
			rd := d.WithPartitions(keep)
			return c14EncPDesc(&rd)
		}
		size := r.intn(len(d.Partitions) + 2)
		ident := "tenant-" + itoa(r.intn(3))
		if sub, err := pir.ShuffleShard(ident, size); err == nil {
			sets, err := sub.GetReplicationSetsForOperation(op)
			e.emit("C15.repl", restrict(sub), instStr, c15HealthyBits(op)+",shard,"+itoa(size), showSets(sets, err))
		}
		lookback := pick(r, []time.Duration{10 * time.Minute, 10 * time.Hour})
		if sub, err := pir.ShuffleShardWithLookback(ident, size, lookback, time.Now()); err == nil {
			sets, err := sub.GetReplicationSetsForOperation(op)
			e.emit("C15.repl", restrict(sub), instStr, c15HealthyBits(op)+",lookback,"+itoa(size)+","+itoa(int(lookback/time.Minute))+"m", showSets(sets, err))
		}
		return
	}
	mr := ring.NewMultiPartitionInstanceRing(c15Reader{pr}, ir, time.Hour)
	for pid := int32(0); pid < 4; pid++ {
		s, err := mr.GetReplicationSetForPartitionAndOperation(pid, op)
		o := "err:" + c15Err(err)
		if err == nil {
			var in []string
			for _, x := range s.Instances {
				in = append(in, x.Id)
			}
			za := 0
			if s.ZoneAwarenessEnabled {
				za = 1
			}
			o = "ok:" + strings.Join(in, "+") + ":" + itoa(s.MaxUnavailableZones) + ":" + itoa(s.MaxErrors) + ":" + itoa(za)
		}
		e.emit("C15.mrepl", c14EncPDesc(d), instStr, c15HealthyBits(op)+","+strconv.Itoa(int(pid)), o)
	}
}

func runC15(e *env) {
	// slow-wait histories run concurrently with everything else (each sleeps 1.2..2.0 s of real time)
	nSlow := 6
	if !e.quick {
		nSlow = 48
	}
	nLoop := 40
	if !e.quick {
		nLoop = 600
	}
	slow := make([][]string, nSlow+nLoop)
	var wg sync.WaitGroup
	sem := make(chan struct{}, 8)
	for i := 0; i < nLoop; i++ {
		wg.Add(1)
		go func(i int) {
			defer wg.Done()
			sem <- struct{}{}
			defer func() { <-sem }()
			slow[nSlow+i] = c15Loop(e.seed, i)
		}(i)
	}
	for i := 0; i < nSlow; i++ {
		wg.Add(1)
		go func(i int) {
			defer wg.Done()
			slow[i] = c15SlowWait(e.seed, i)
		}(i)
	}
	defer func() {
		wg.Wait()
		for _, f := range slow {
			e.emit(f...)
		}
	}()
	c15GenRoute(e)
	r := newRng(e.seed, 1502)
	for i := 0; i < 2500*e.scale; i++ {
		c15History(e, r)
	}
	r = newRng(e.seed, 1503)
	for i := 0; i < 2500*e.scale; i++ {
		c15Repl(e, r)
	}
	r = newRng(e.seed, 1504)
	for i := 0; i < 300*e.scale; i++ {
		c15CasConflict(e, r)
	}
	r = newRng(e.seed, 1505)
	for i := 0; i < 100*e.scale; i++ {
		c15PollRace(e, r)
	}
	r = newRng(e.seed, 1506)
	for i := 0; i < 150*e.scale; i++ {
		c15SubSecond(e, r)
	}
}
