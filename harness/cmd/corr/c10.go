package main

// C10 — batched quorum writes (ring/batch.go). The harness drives the REAL public
// ring.DoBatchWithOptions / ring.DoBatch with real goroutines. Every replica callback blocks on a
// gate owned by the harness; the harness releases the gates in a planned order (one at a time or
// several at once), cancels the caller's context at a planned position and records a global event
// trace:
//
//	c<a>:<i.j..>  callback invoked for replica a with these key indexes
//	r<a>+<b>..    the harness lets the callbacks of replicas a, b.. return at once (logged BEFORE the gates open)
//	d<a>          the callback of replica a returns now (logged inside the callback, right before `return`)
//	f<a>          the goroutine of replica a has completely finished (only with a wrapping spawner)
//	x             the harness cancelled the caller's context
//	C             the cleanup callback ran
//	R:<v>         DoBatch returned v (nil | e<a> = the error replica a returned | enil | ctx | get | noinst | other)
//	T             watchdog: a return was due and did not happen within c10Watchdog
//
// Waiting policy (no sleeps on the expected path): after each release the harness waits for the
// return with the long watchdog only if, by the property statement, a return is due at that
// point; otherwise it waits a very short time, just to let a (wrong) early return show up.

import (
	"context"
	"errors"
	"fmt"
	"os"
	"runtime"
	"sort"
	"strconv"
	"strings"
	"sync"
	"sync/atomic"
	"time"

	"github.com/grafana/dskit/httpgrpc"
	"github.com/grafana/dskit/ring"
)

func init() { register("C10", runC10) }

const (
	c10Watchdog  = 4 * time.Second
	c10ShortWait = 300 * time.Microsecond
	c10MaxHangs  = 24 // after that many watchdog hits the generator stops (keeps broken trees fast)
)

var errC10Cancel = errors.New("c10: caller cancelled")
var errC10Get = errors.New("c10: get failed")

type c10Err struct {
	addr    int
	client  bool
	wrapped error // optional: context.Canceled / context.DeadlineExceeded (the BATCH context is a different one)
}

func (e *c10Err) Error() string {
	if e.wrapped != nil {
		return "c10 replica error " + strconv.Itoa(e.addr) + ": " + e.wrapped.Error()
	}
	return "c10 replica error " + strconv.Itoa(e.addr)
}
func (e *c10Err) Unwrap() error { return e.wrapped }

// ---- ring under test ------------------------------------------------------------------------

type c10Set struct {
	addrs  []int
	maxErr int
	err    bool
}

// c10FakeRing implements ring.DoBatchRing with prescribed replication sets.
type c10FakeRing struct {
	icount, rf int
	sets       []c10Set // by key value (key k -> sets[k])
	cancelAt   int      // >0: cancel the caller's context inside the cancelAt-th Get call
	cancel     func()
	gets       atomic.Int64
}

func (f *c10FakeRing) Get(key uint32, _ ring.Operation, buf []ring.InstanceDesc, _, _ []string) (ring.ReplicationSet, error) {
	n := int(f.gets.Add(1))
	if f.cancelAt > 0 && n == f.cancelAt && f.cancel != nil {
		f.cancel()
	}
	s := f.sets[int(key)]
	if s.err {
		return ring.ReplicationSet{}, errC10Get
	}
	out := buf[:0]
	for _, a := range s.addrs {
		out = append(out, ring.InstanceDesc{Id: "i" + strconv.Itoa(a), Addr: "a" + strconv.Itoa(a)})
	}
	return ring.ReplicationSet{Instances: out, MaxErrors: s.maxErr}, nil
}
func (f *c10FakeRing) ReplicationFactor() int { return f.rf }
func (f *c10FakeRing) InstancesCount() int    { return f.icount }

// c10CountRing wraps the real ring and counts Get calls.
type c10CountRing struct {
	inner *ring.Ring
	gets  atomic.Int64
}

func (c *c10CountRing) Get(key uint32, op ring.Operation, b []ring.InstanceDesc, h, z []string) (ring.ReplicationSet, error) {
	c.gets.Add(1)
	return c.inner.Get(key, op, b, h, z)
}
func (c *c10CountRing) ReplicationFactor() int { return c.inner.ReplicationFactor() }
func (c *c10CountRing) InstancesCount() int    { return c.inner.InstancesCount() }

func c10AddrID(addr string) int {
	if strings.HasPrefix(addr, "a") {
		if v, err := strconv.Atoi(addr[1:]); err == nil {
			return v
		}
	}
	return 9999
}

// ---- case -----------------------------------------------------------------------------------

type c10Case struct {
	spawn    string // default | wrap | inline | pool1 | pool2 | wrapx<k> | inlinex<k> (the spawner ends the caller's context inside its k-th Go call, i.e. DURING the spawn loop)
	cls      string // custom | http | nil   (IsClientError: harness function / httpgrpc errors with explicit isHTTPStatus4xx default)
	api      string // opt | dobatch
	icount   int
	cancelAt int // -1 none; 0 = cancelled before the call; >0 = inside that Get call (fake ring only)
	sets     []c10Set
	outcomes map[int]byte // addr -> 'o' | 'c' | 's'
	wrap     map[int]byte // addr -> 0 | 'C' | 'D': the replica's error wraps context.Canceled / context.DeadlineExceeded
	plan     [][]int      // batches of addrs; {-1} = cancel
	ringInfo string
	getErrs  map[string]bool // texts of the errors the real ring's Get returned to the harness itself
	mkRing   func(cancel func()) (ring.DoBatchRing, func() int64)
	keys     []uint32
}

func (c *c10Case) addrs() []int {
	m := map[int]bool{}
	for _, s := range c.sets {
		if s.err {
			break
		}
		for _, a := range s.addrs {
			m[a] = true
		}
	}
	out := make([]int, 0, len(m))
	for a := range m {
		out = append(out, a)
	}
	sort.Ints(out)
	return out
}

func (c *c10Case) encSets() string {
	if len(c.sets) == 0 {
		return "-"
	}
	ps := make([]string, len(c.sets))
	for i, s := range c.sets {
		if s.err {
			ps[i] = "E"
			continue
		}
		as := make([]string, len(s.addrs))
		for j, a := range s.addrs {
			as[j] = strconv.Itoa(a)
		}
		ps[i] = strings.Join(as, ".") + "/" + strconv.Itoa(s.maxErr)
	}
	return strings.Join(ps, ";")
}

func (c *c10Case) encOutcomes() string {
	as := make([]int, 0, len(c.outcomes))
	for a := range c.outcomes {
		as = append(as, a)
	}
	if len(as) == 0 {
		return "-"
	}
	sort.Ints(as)
	ps := make([]string, len(as))
	for i, a := range as {
		ps[i] = strconv.Itoa(a) + ":" + string(c.outcomes[a])
		if w := c.wrap[a]; w != 0 && c.outcomes[a] != 'o' {
			ps[i] += string(w)
		}
	}
	return strings.Join(ps, ",")
}

func (c *c10Case) encPlan() string {
	if len(c.plan) == 0 {
		return "-"
	}
	ps := make([]string, len(c.plan))
	for i, b := range c.plan {
		if len(b) == 1 && b[0] < 0 {
			ps[i] = "x"
			continue
		}
		as := make([]string, len(b))
		for j, a := range b {
			as[j] = strconv.Itoa(a)
		}
		ps[i] = strings.Join(as, "+")
	}
	return strings.Join(ps, ",")
}

// prefixEarly: does the property's sequential prefix return before any call (by construction of the case)?
func (c *c10Case) prefixEarly() bool {
	if c.icount <= 0 || c.cancelAt >= 0 {
		return true
	}
	for _, s := range c.sets {
		if s.err {
			return true
		}
	}
	return false
}

// returnDue: by the property statement, must the operation have returned once the given replicas
// have answered (and been recorded)? Used ONLY to choose how long to wait.
func (c *c10Case) returnDue(released map[int]bool, cancelled bool) bool {
	if cancelled || c.prefixEarly() {
		return true
	}
	all := true
	for _, a := range c.addrs() {
		if !released[a] {
			all = false
		}
	}
	if all {
		return true
	}
	allQuorum := len(c.sets) > 0
	for _, s := range c.sets {
		ok, cl, sv := 0, 0, 0
		for _, a := range s.addrs {
			if released[a] {
				switch c.outcomes[a] {
				case 'o':
					ok++
				case 'c':
					cl++
				default:
					sv++
				}
			}
		}
		if cl > s.maxErr || sv > s.maxErr || (ok+cl+sv == len(s.addrs) && ok < len(s.addrs)-s.maxErr) {
			return true
		}
		if ok < len(s.addrs)-s.maxErr {
			allQuorum = false
		}
	}
	return allQuorum
}

type c10Trace struct {
	mu sync.Mutex
	ev []string
}

func (t *c10Trace) add(s string) {
	t.mu.Lock()
	t.ev = append(t.ev, s)
	t.mu.Unlock()
}

var c10Hangs atomic.Int64

// c10Run executes one case against the real code and returns (trace, gets).
func c10Run(c *c10Case) (string, string) {
	ctx, cancelCause := context.WithCancelCause(context.Background())
	cancel := func() { cancelCause(errC10Cancel) }
	defer cancel()
	tr := &c10Trace{}
	r, getCount := c.mkRing(func() { tr.add("x"); cancel() })

	addrs := c.addrs()
	gates := map[int]chan struct{}{}
	errs := map[int]error{}
	for _, a := range addrs {
		gates[a] = make(chan struct{})
		var inner error
		switch c.wrap[a] {
		case 'C':
			inner = context.Canceled
		case 'D':
			inner = context.DeadlineExceeded
		}
		switch c.outcomes[a] {
		case 'c':
			if c.cls == "custom" {
				errs[a] = &c10Err{addr: a, client: true, wrapped: inner}
			} else if inner != nil {
				errs[a] = fmt.Errorf("c10 replica %d: %w: %w", a, httpgrpc.Errorf(400+a%30, "rejected"), inner)
			} else {
				errs[a] = httpgrpc.Errorf(400+a%30, "c10 replica %d", a)
			}
		case 's':
			if c.cls == "custom" {
				errs[a] = &c10Err{addr: a, client: false, wrapped: inner}
			} else if inner != nil {
				// no grpc status at all: the default classifier files it under the server family
				errs[a] = fmt.Errorf("c10 replica %d interrupted: %w", a, inner)
			} else {
				errs[a] = httpgrpc.Errorf(500+a%12, "c10 replica %d", a)
			}
		}
	}
	started := make(chan int, 64)
	inline := strings.HasPrefix(c.spawn, "inline")
	// wrapx<k> / inlinex<k>: the caller's context ends inside the k-th call of the spawner (between two hand-overs)
	spawnBase, spawnCancelK := c.spawn, 0
	if strings.HasPrefix(c.spawn, "wrapx") || strings.HasPrefix(c.spawn, "inlinex") {
		i := strings.IndexByte(c.spawn, 'x')
		spawnBase = c.spawn[:i]
		spawnCancelK, _ = strconv.Atoi(c.spawn[i+1:])
	}
	var goCalls atomic.Int64
	var spawnCancelled atomic.Bool
	cancelInGo := func() {
		if spawnCancelK > 0 && goCalls.Add(1) == int64(spawnCancelK) {
			tr.add("x")
			cancel()
			spawnCancelled.Store(true)
		}
	}
	var lastInline atomic.Int64
	lastInline.Store(-1)

	callback := func(d ring.InstanceDesc, idx []int) error {
		a := c10AddrID(d.Addr)
		is := make([]string, len(idx))
		for i, v := range idx {
			is[i] = strconv.Itoa(v)
		}
		tr.add("c" + strconv.Itoa(a) + ":" + strings.Join(is, "."))
		g, known := gates[a]
		if !known {
			return nil
		}
		if inline {
			lastInline.Store(int64(a))
			tr.add("r" + strconv.Itoa(a))
			tr.add("d" + strconv.Itoa(a))
			return errs[a]
		}
		select {
		case started <- a:
		default:
		}
		<-g
		tr.add("d" + strconv.Itoa(a)) // logged by the callback itself, immediately before it returns
		return errs[a]
	}
	cleanupFn := func() { tr.add("C") }

	var finished atomic.Int64
	var goFn func(func())
	var poolStop chan struct{}
	switch spawnBase {
	case "wrap":
		goFn = func(f func()) { go func() { f(); finished.Add(1) }(); cancelInGo() }
	case "inline":
		goFn = func(f func()) {
			lastInline.Store(-1)
			f()
			if a := lastInline.Load(); a >= 0 {
				tr.add("f" + strconv.Itoa(int(a)))
			}
			finished.Add(1)
			cancelInGo()
		}
	case "pool1", "pool2":
		w := 1
		if c.spawn == "pool2" {
			w = 2
		}
		tasks := make(chan func(), 64)
		poolStop = make(chan struct{})
		for i := 0; i < w; i++ {
			go func() {
				for {
					select {
					case f := <-tasks:
						f()
						finished.Add(1)
					case <-poolStop:
						return
					}
				}
			}()
		}
		goFn = func(f func()) { tasks <- f }
	}
	if poolStop != nil {
		defer close(poolStop)
	}
	tracksFinish := c.spawn != "default"

	var isClient func(error) bool
	if c.cls == "custom" {
		isClient = func(e error) bool {
			var ce *c10Err
			return errors.As(e, &ce) && ce.client
		}
	}

	if c.cancelAt == 0 {
		tr.add("x")
		cancel()
	}

	returned := make(chan struct{})
	go func() {
		var err error
		if c.api == "dobatch" {
			err = ring.DoBatch(ctx, ring.Write, r, c.keys, callback, cleanupFn)
		} else {
			err = ring.DoBatchWithOptions(ctx, ring.Write, r, c.keys, callback, ring.DoBatchOptions{Cleanup: cleanupFn, IsClientError: isClient, Go: goFn})
		}
		v := "other"
		switch {
		case err == nil:
			v = "nil"
		case err == errC10Cancel:
			v = "ctx"
		case err == errC10Get || errors.Is(err, ring.ErrEmptyRing) || errors.Is(err, ring.ErrTooManyUnhealthyInstances) || errors.Is(err, ring.ErrInstanceNotFound) || errors.Is(err, ring.ErrInconsistentTokensInfo):
			v = "get"
		case c.getErrs[err.Error()]:
			v = "get"
		case strings.Contains(err.Error(), "InstancesCount <= 0"):
			v = "noinst"
		default:
			for a, e := range errs {
				if e == err {
					v = "e" + strconv.Itoa(a)
				}
			}
		}
		tr.add("R:" + v)
		close(returned)
	}()

	hasReturned := false
	gaveUp := false
	waitReturn := func(d time.Duration) bool {
		if hasReturned {
			return true
		}
		runtime.Gosched()
		select {
		case <-returned:
			hasReturned = true
		default:
			tm := time.NewTimer(d)
			select {
			case <-returned:
				hasReturned = true
			case <-tm.C:
			}
			tm.Stop()
		}
		return hasReturned
	}
	released := map[int]bool{}
	cancelled := c.cancelAt >= 0
	checkReturn := func() {
		if hasReturned || gaveUp {
			return
		}
		if c.returnDue(released, cancelled) {
			if !waitReturn(c10Watchdog) {
				tr.add("T")
				if len(c.keys) > 0 {
					c10Hangs.Add(1) // (empty key lists are few and fixed in number; they do not count)
				}
				gaveUp = true
			}
		} else {
			waitReturn(c10ShortWait)
		}
	}

	if !c.prefixEarly() && !inline {
		startedSet := map[int]bool{}
		waitStarted := func(need func() bool) bool {
			deadline := time.NewTimer(c10Watchdog)
			defer deadline.Stop()
			for !need() {
				select {
				case a := <-started:
					startedSet[a] = true
				case <-deadline.C:
					return false
				}
			}
			return true
		}
		pool := strings.HasPrefix(c.spawn, "pool")
		if !pool {
			waitStarted(func() bool { return len(startedSet) >= len(addrs) })
			if spawnCancelled.Load() {
				// the context ended during the spawn loop: the return is due before anything is released
				cancelled = true
				checkReturn()
			}
		} else {
			// the workers pick up the first tasks; only then may the plan (which can start with a cancellation) begin
			w := 1
			if c.spawn == "pool2" {
				w = 2
			}
			if w > len(addrs) {
				w = len(addrs)
			}
			waitStarted(func() bool { return len(startedSet) >= w })
		}
		nReleased := 0
		release := func(batch []int) {
			bs := make([]string, len(batch))
			for i, a := range batch {
				bs[i] = strconv.Itoa(a)
				released[a] = true
			}
			tr.add("r" + strings.Join(bs, "+")) // one token per simultaneous release
			for _, a := range batch {
				close(gates[a])
			}
			nReleased += len(batch)
			if tracksFinish {
				deadline := time.Now().Add(c10Watchdog)
				for finished.Load() < int64(nReleased) && time.Now().Before(deadline) {
					runtime.Gosched()
				}
				if finished.Load() >= int64(nReleased) {
					for _, a := range batch {
						tr.add("f" + strconv.Itoa(a))
					}
				}
			}
			checkReturn()
		}
		if pool {
			// the plan is a priority order: release the first not yet released replica that has started
			var order []int
			for _, b := range c.plan {
				order = append(order, b...)
			}
			for len(order) > 0 {
				if order[0] < 0 {
					tr.add("x")
					cancel()
					cancelled = true
					checkReturn()
					order = order[1:]
					continue
				}
				pickIdx := -1
				ok := waitStarted(func() bool {
					for i, a := range order {
						if a >= 0 && startedSet[a] {
							pickIdx = i
							return true
						}
					}
					return false
				})
				if !ok {
					break // nothing starts any more
				}
				a := order[pickIdx]
				order = append(order[:pickIdx:pickIdx], order[pickIdx+1:]...)
				release([]int{a})
			}
		} else {
			for _, b := range c.plan {
				if len(b) == 1 && b[0] < 0 {
					tr.add("x")
					cancel()
					cancelled = true
					checkReturn()
					continue
				}
				var bb []int
				for _, a := range b {
					if startedSet[a] {
						bb = append(bb, a)
					}
				}
				if len(bb) > 0 {
					release(bb)
				}
			}
		}
	}
	// end of plan: the operation must have returned by now (all calls returned or never made)
	for _, a := range addrs {
		released[a] = true
	}
	if spawnCancelled.Load() {
		cancelled = true
	}
	checkReturn()
	if !hasReturned {
		tr.add("x")
		cancel()
		if !waitReturn(c10Watchdog) {
			tr.add("T")
		}
	}
	// cleanup must come (all calls have returned)
	deadline := time.Now().Add(c10Watchdog)
	for time.Now().Before(deadline) {
		tr.mu.Lock()
		seen := false
		for _, e := range tr.ev {
			if e == "C" {
				seen = true
			}
		}
		tr.mu.Unlock()
		if seen {
			break
		}
		runtime.Gosched()
		time.Sleep(20 * time.Microsecond)
	}
	if !time.Now().Before(deadline) && len(c.keys) > 0 {
		c10Hangs.Add(1) // cleanup never came: counts as a hang (keeps broken trees fast)
	}
	// unblock anything still blocked (only reachable when the code under test misbehaved)
	for _, a := range addrs {
		select {
		case <-gates[a]:
		default:
			func() {
				defer func() { _ = recover() }()
				close(gates[a])
			}()
		}
	}
	tr.mu.Lock()
	s := strings.Join(tr.ev, ",")
	tr.mu.Unlock()
	if s == "" {
		s = "-"
	}
	return s, strconv.FormatInt(getCount(), 10)
}

// ---- generators -----------------------------------------------------------------------------

func c10ModeString(c *c10Case) string { return c.spawn + "." + c.cls + "." + c.api }

func c10FakeCase(sets []c10Set, icount, rf int) *c10Case {
	c := &c10Case{spawn: "wrap", cls: "custom", api: "opt", icount: icount, cancelAt: -1, sets: sets, ringInfo: "fake/rf" + strconv.Itoa(rf), outcomes: map[int]byte{}, wrap: map[int]byte{}}
	c.keys = make([]uint32, len(sets))
	for i := range sets {
		c.keys[i] = uint32(i)
	}
	c.mkRing = func(cancel func()) (ring.DoBatchRing, func() int64) {
		f := &c10FakeRing{icount: icount, rf: rf, sets: sets, cancel: cancel}
		if c.cancelAt > 0 {
			f.cancelAt = c.cancelAt
		}
		return f, func() int64 { return f.gets.Load() }
	}
	return c
}

func c10Perms(xs []int) [][]int {
	if len(xs) <= 1 {
		return [][]int{append([]int(nil), xs...)}
	}
	var out [][]int
	for i := range xs {
		rest := append(append([]int(nil), xs[:i]...), xs[i+1:]...)
		for _, p := range c10Perms(rest) {
			out = append(out, append([]int{xs[i]}, p...))
		}
	}
	return out
}

func c10Singletons(order []int, cancelPos int) [][]int {
	var plan [][]int
	for i, a := range order {
		if i == cancelPos {
			plan = append(plan, []int{-1})
		}
		plan = append(plan, []int{a})
	}
	if cancelPos == len(order) {
		plan = append(plan, []int{-1})
	}
	return plan
}

// threadStates bounds the number of model states of one goroutine (for the acceptance search).
func (c *c10Case) threadStates(a int) int {
	n := 0
	for _, s := range c.sets {
		for _, b := range s.addrs {
			if b == a {
				n++
			}
		}
	}
	return 6*n + 3
}

func c10RandPlan(r *rng, c *c10Case, allowBatches bool) {
	as := c.addrs()
	for i := len(as) - 1; i > 0; i-- {
		j := r.intn(i + 1)
		as[i], as[j] = as[j], as[i]
	}
	var plan [][]int
	for i := 0; i < len(as); {
		k := 1
		if allowBatches && r.chance(1, 4) {
			k = 2 + r.intn(2)
		}
		if i+k > len(as) {
			k = len(as) - i
		}
		prod := 1
		for _, a := range as[i : i+k] {
			prod *= c.threadStates(a)
		}
		if prod > 6000 {
			k = 1
		}
		plan = append(plan, append([]int(nil), as[i:i+k]...))
		i += k
	}
	if r.chance(1, 4) {
		p := r.intn(len(plan) + 1)
		plan = append(plan[:p:p], append([][]int{{-1}}, plan[p:]...)...)
	}
	c.plan = plan
}

func c10RandOutcomes(r *rng, c *c10Case) {
	bias := r.intn(4) // 0: mostly ok, 1: uniform, 2: mostly errors, 3: one family
	fam := pick(r, []byte{'c', 's'})
	for _, a := range c.addrs() {
		var o byte
		switch bias {
		case 0:
			o = pick(r, []byte{'o', 'o', 'o', 'o', 'c', 's'})
		case 1:
			o = pick(r, []byte{'o', 'c', 's'})
		case 2:
			o = pick(r, []byte{'o', 'c', 'c', 's', 's'})
		default:
			o = pick(r, []byte{'o', fam})
		}
		c.outcomes[a] = o
		if o != 'o' && r.chance(1, 4) {
			c.wrap[a] = pick(r, []byte{'C', 'D'})
		}
	}
}

// c10BoundDefault: without a wrapping spawner the harness cannot tell when a goroutine has finished, so the
// model has to consider all released goroutines as possibly still running; keep that search small.
func c10BoundDefault(c *c10Case) {
	if c.spawn != "default" {
		return
	}
	prod := 1
	for _, a := range c.addrs() {
		prod *= c.threadStates(a)
	}
	if prod > 20000 {
		c.spawn = "wrap"
		c.api = "opt"
	}
}

func c10RandMode(r *rng, c *c10Case) {
	c.spawn = pick(r, []string{"wrap", "wrap", "wrap", "default", "inline", "pool1", "pool2"})
	c.cls = pick(r, []string{"custom", "custom", "http"})
	c.api = "opt"
	if c.spawn == "default" && c.cls == "http" && r.chance(1, 2) {
		c.api = "dobatch"
	}
	c10BoundDefault(c)
}

// c10SpawnCancel turns every 12th random case that uses the wrapping / inline spawner and calls >= 2 replicas
// into a "context ends inside the k-th Go call" case (draws nothing from the generator's rng).
func c10SpawnCancel(c *c10Case, i int) {
	n := len(c.addrs())
	if i%12 != 0 || n < 2 || c.prefixEarly() || (c.spawn != "wrap" && c.spawn != "inline") {
		return
	}
	var plan [][]int
	for _, b := range c.plan {
		if !(len(b) == 1 && b[0] < 0) {
			plan = append(plan, b)
		}
	}
	c.plan = plan
	c.spawn += "x" + strconv.Itoa(1+(i/12)%(n-1))
}

func c10RealCase(r *rng, now int64) *c10Case {
	zones := [][]string{{""}, {"z1", "z2"}, {"z1", "z2", "z3"}}[r.intn(3)]
	states := []ring.InstanceState{ring.ACTIVE}
	if r.chance(1, 3) {
		states = []ring.InstanceState{ring.ACTIVE, ring.ACTIVE, ring.ACTIVE, ring.LEAVING, ring.PENDING, ring.JOINING}
	}
	d := genDesc(r, ringGenOpts{maxInst: 6, maxTokens: 4, zones: zones, states: states, now: now, uniqueTokens: true, smallTokenSpace: r.chance(1, 3)})
	// fresh heartbeats (a stale one would make the outcome depend on the wall clock)
	ids := make([]string, 0, len(d.Ingesters))
	for id := range d.Ingesters {
		ids = append(ids, id)
	}
	sort.Strings(ids) // (map order must not decide which random numbers are drawn)
	for _, id := range ids {
		i := d.Ingesters[id]
		if r.chance(9, 10) {
			i.Timestamp = now
		} else {
			i.Timestamp = now - 100000
		}
		d.Ingesters[id] = i
	}
	rf := 1 + r.intn(5)
	zoneAware := len(zones) > 1 && r.chance(1, 2)
	cfg := ring.Config{HeartbeatTimeout: time.Hour, ReplicationFactor: rf, ZoneAwarenessEnabled: zoneAware, SubringCacheDisabled: true}
	rg, err := ring.VerifNewRing(cfg, d, nil)
	if err != nil {
		panic(err)
	}
	nk := 1 + r.intn(4)
	if r.chance(1, 500) {
		nk = 0
	}
	keys := make([]uint32, nk)
	for i := range keys {
		if r.chance(1, 2) {
			keys[i] = r.u32()
		} else {
			keys[i] = pick(r, boundaryTokens)
		}
	}
	c := &c10Case{icount: rg.InstancesCount(), cancelAt: -1, outcomes: map[int]byte{}, wrap: map[int]byte{}, keys: keys}
	for _, k := range keys {
		rs, err := rg.Get(k, ring.Write, nil, nil, nil)
		if err != nil {
			c.sets = append(c.sets, c10Set{err: true})
			if c.getErrs == nil {
				c.getErrs = map[string]bool{}
			}
			c.getErrs[err.Error()] = true
			continue
		}
		s := c10Set{maxErr: rs.MaxErrors}
		for _, i := range rs.Instances {
			s.addrs = append(s.addrs, c10AddrID(i.Addr))
		}
		c.sets = append(c.sets, s)
	}
	za := "0"
	if zoneAware {
		za = "1"
	}
	// timestamps relative to `now`, so that the case line is a function of the seed only
	rel := cloneDesc(d)
	for id, i := range rel.Ingesters {
		i.Timestamp -= now
		i.RegisteredTimestamp -= now
		rel.Ingesters[id] = i
	}
	c.ringInfo = "real/rf" + strconv.Itoa(rf) + "/za" + za + "/" + u32s(keys) + "/" + encDesc(rel)
	c.mkRing = func(func()) (ring.DoBatchRing, func() int64) {
		cr := &c10CountRing{inner: rg}
		return cr, func() int64 { return cr.gets.Load() }
	}
	return c
}

func c10RandFake(r *rng) *c10Case {
	nk := 1 + r.intn(4)
	ninst := 1 + r.intn(6)
	sets := make([]c10Set, nk)
	for i := range sets {
		n := 1 + r.intn(5)
		if n > ninst {
			n = ninst
		}
		perm := make([]int, ninst)
		for j := range perm {
			perm[j] = j
		}
		for j := ninst - 1; j > 0; j-- {
			k := r.intn(j + 1)
			perm[j], perm[k] = perm[k], perm[j]
		}
		me := n / 2
		if n%2 == 0 && n > 0 && r.chance(1, 2) {
			me = n/2 - 1
		}
		if r.chance(1, 3) {
			me = r.intn(n)
		}
		sets[i] = c10Set{addrs: append([]int(nil), perm[:n]...), maxErr: me}
	}
	return c10FakeCase(sets, ninst, 1+r.intn(5))
}

func runC10(e *env) {
	var cases []*c10Case
	add := func(c *c10Case) { cases = append(cases, c) }
	now := time.Now().Unix()
	tStart := time.Now()

	// (1) corners: empty key list, no instances, Get error, cancellation before / during the key loop
	for _, sp := range []string{"wrap", "default", "inline", "pool1"} {
		c := c10FakeCase(nil, 3, 3)
		c.spawn = sp
		add(c)
		c = c10FakeCase(nil, 3, 3)
		c.spawn = sp
		c.cancelAt = 0
		add(c)
	}
	{
		c := c10FakeCase(nil, 3, 3)
		c.spawn, c.cls, c.api = "default", "http", "dobatch"
		add(c)
		c = c10FakeCase(nil, 0, 3)
		add(c)
		c = c10FakeCase([]c10Set{{addrs: []int{0}, maxErr: 0}}, 0, 1)
		add(c)
		c = c10FakeCase([]c10Set{{addrs: []int{0}, maxErr: 0}}, -1, 1)
		add(c)
	}
	base3 := func() []c10Set {
		return []c10Set{{addrs: []int{0, 1, 2}, maxErr: 1}, {addrs: []int{1, 2, 3}, maxErr: 1}, {addrs: []int{2, 3, 0}, maxErr: 1}}
	}
	for pos := 0; pos < 3; pos++ {
		s := base3()
		s[pos] = c10Set{err: true}
		add(c10FakeCase(s, 4, 3))
		for cat := 0; cat <= 3; cat++ {
			c := c10FakeCase(base3(), 4, 3)
			c.cancelAt = cat
			add(c)
		}
	}
	{
		// more than 10 000 keys: the periodic context check inside the key loop
		n := 10003
		sets := make([]c10Set, n)
		for i := range sets {
			sets[i] = c10Set{addrs: []int{i % 3}, maxErr: 0}
		}
		for _, cat := range []int{5, 10000, 10001, 10003} {
			c := c10FakeCase(sets, 3, 1)
			c.cancelAt = cat
			add(c)
		}
	}

	// (2) exhaustive: outcome assignments x completion orders (x cancellation position) on small shapes
	type shape struct {
		sets    []c10Set
		cancels bool
	}
	shapes := []shape{
		{[]c10Set{{addrs: []int{0}, maxErr: 0}}, true},
		{[]c10Set{{addrs: []int{0, 1}, maxErr: 0}}, true},
		{[]c10Set{{addrs: []int{0, 1}, maxErr: 1}}, true},
		{[]c10Set{{addrs: []int{0, 1, 2}, maxErr: 1}}, true},
		{[]c10Set{{addrs: []int{0, 1, 2}, maxErr: 0}}, false},
		{[]c10Set{{addrs: []int{0, 1, 2}, maxErr: 2}}, false},
		{[]c10Set{{addrs: []int{0, 1, 2}, maxErr: 1}, {addrs: []int{2, 1, 0}, maxErr: 1}}, false},
		{[]c10Set{{addrs: []int{0, 1}, maxErr: 0}, {addrs: []int{1, 2}, maxErr: 1}}, true},
		{[]c10Set{{addrs: []int{0, 1, 2}, maxErr: 1}, {addrs: []int{1, 2, 3}, maxErr: 1}}, false},
	}
	if !e.quick {
		shapes = append(shapes,
			shape{[]c10Set{{addrs: []int{0, 1, 2}, maxErr: 1}, {addrs: []int{1, 2, 3}, maxErr: 1}, {addrs: []int{2, 3, 0}, maxErr: 1}, {addrs: []int{3, 0, 1}, maxErr: 1}}, true},
			shape{[]c10Set{{addrs: []int{0, 1, 2, 3, 4}, maxErr: 2}}, false},
			shape{[]c10Set{{addrs: []int{0, 1, 2, 3}, maxErr: 1}, {addrs: []int{4, 3, 2, 1}, maxErr: 2}}, false},
		)
	}
	modeRng := newRng(e.seed, 7)
	for _, sh := range shapes {
		tmp := c10FakeCase(sh.sets, 6, 3)
		as := tmp.addrs()
		nOut := 1
		for range as {
			nOut *= 3
		}
		perms := c10Perms(as)
		for oc := 0; oc < nOut; oc++ {
			for _, p := range perms {
				cps := []int{-1}
				if sh.cancels {
					for k := 0; k <= len(as); k++ {
						cps = append(cps, k)
					}
				}
				for _, cp := range cps {
					c := c10FakeCase(sh.sets, 6, 3)
					v := oc
					for _, a := range as {
						c.outcomes[a] = "ocs"[v%3]
						v /= 3
					}
					c.plan = c10Singletons(p, cp)
					if modeRng.chance(1, 5) {
						c.spawn = pick(modeRng, []string{"default", "inline", "pool1", "pool2"})
					}
					if modeRng.chance(1, 6) {
						c.cls = "http"
					}
					c10BoundDefault(c)
					add(c)
				}
			}
		}
	}

	// (1b) the caller's context ends DURING the spawn loop: a spawner that cancels it inside its k-th Go call
	// (k = 1 .. n-1), goroutine flavour (wrapx<k>) and inline flavour (inlinex<k>, everything runs on the
	// caller's goroutine: a cleanup waiter that blocks makes the call itself hang). All-ok, plus 8 random
	// outcome assignments per (shape, k, flavour); random completion order for the goroutine flavour.
	spRng := newRng(e.seed, 8)
	for _, sh := range shapes {
		tmp := c10FakeCase(sh.sets, 6, 3)
		as := tmp.addrs()
		if len(as) < 2 {
			continue
		}
		for k := 1; k < len(as); k++ {
			for _, fl := range []string{"wrapx", "inlinex"} {
				for rep := 0; rep < 9; rep++ {
					c := c10FakeCase(sh.sets, 6, 3)
					for _, a := range as {
						if rep == 0 {
							c.outcomes[a] = 'o'
						} else {
							c.outcomes[a] = pick(spRng, []byte{'o', 'o', 'c', 's'})
						}
					}
					perms := c10Perms(as)
					c.plan = c10Singletons(perms[spRng.intn(len(perms))], -1)
					c.spawn = fl + strconv.Itoa(k)
					if spRng.chance(1, 4) {
						c.cls = "http"
					}
					add(c)
				}
			}
		}
	}

	// (2b) exhaustive over {ok, server error wrapping context.Canceled, client error wrapping
	// context.DeadlineExceeded} x completion orders, batch context NOT cancelled: an interrupted replica
	// call is a failure, never an acknowledgement
	for si, sh := range shapes {
		if si == 4 || si == 5 || si > 8 {
			continue
		}
		tmp := c10FakeCase(sh.sets, 6, 3)
		as := tmp.addrs()
		nOut := 1
		for range as {
			nOut *= 3
		}
		for oc := 0; oc < nOut; oc++ {
			for _, p := range c10Perms(as) {
				c := c10FakeCase(sh.sets, 6, 3)
				v := oc
				for _, a := range as {
					switch v % 3 {
					case 0:
						c.outcomes[a] = 'o'
					case 1:
						c.outcomes[a], c.wrap[a] = 's', 'C'
					default:
						c.outcomes[a], c.wrap[a] = 'c', 'D'
					}
					v /= 3
				}
				c.plan = c10Singletons(p, -1)
				switch modeRng.intn(6) {
				case 0:
					c.spawn = pick(modeRng, []string{"default", "inline", "pool1", "pool2"})
				case 1:
					c.cls = "http"
				case 2:
					c.spawn, c.cls, c.api = "default", "http", "dobatch"
				}
				c10BoundDefault(c)
				add(c)
			}
		}
	}

	// (3) simultaneous releases: all replicas of a shape released at once / in two waves
	for _, sh := range shapes[:8] {
		tmp := c10FakeCase(sh.sets, 6, 3)
		as := tmp.addrs()
		nOut := 1
		for range as {
			nOut *= 3
		}
		reps := 3
		for oc := 0; oc < nOut; oc++ {
			for rep := 0; rep < reps; rep++ {
				c := c10FakeCase(sh.sets, 6, 3)
				v := oc
				for _, a := range as {
					c.outcomes[a] = "ocs"[v%3]
					v /= 3
				}
				if rep == 0 || len(as) < 3 {
					c.plan = [][]int{append([]int(nil), as...)}
				} else {
					k := 1 + modeRng.intn(len(as)-1)
					c.plan = [][]int{append([]int(nil), as[:k]...), append([]int(nil), as[k:]...)}
				}
				if rep == 2 {
					c.spawn = "default"
				}
				c10BoundDefault(c)
				add(c)
			}
		}
	}

	// (4) random: real rings (VerifNewRing + Get) and prescribed replication sets
	nReal, nFake := 2500*e.scale, 1500*e.scale
	rr := newRng(e.seed, 1)
	for i := 0; i < nReal; i++ {
		c := c10RealCase(rr, now)
		if !c.prefixEarly() || rr.chance(1, 3) {
			c10RandOutcomes(rr, c)
			c10RandMode(rr, c)
			c10RandPlan(rr, c, c.spawn == "wrap")
			if rr.chance(1, 25) {
				c.cancelAt = 0
			}
			c10SpawnCancel(c, i)
			add(c)
		}
	}
	rf := newRng(e.seed, 2)
	for i := 0; i < nFake; i++ {
		c := c10RandFake(rf)
		c10RandOutcomes(rf, c)
		c10RandMode(rf, c)
		c10RandPlan(rf, c, c.spawn == "wrap")
		if rf.chance(1, 30) {
			c.cancelAt = rf.intn(len(c.sets) + 1)
		}
		c10SpawnCancel(c, i)
		add(c)
	}

	tGen := time.Now()
	// run (parallel), emit in generation order
	type res struct{ trace, gets string }
	out := make([]res, len(cases))
	done := make([]bool, len(cases))
	workers := runtime.GOMAXPROCS(0)
	if workers > 8 {
		workers = 8
	}
	var next atomic.Int64
	var wg sync.WaitGroup
	for w := 0; w < workers; w++ {
		wg.Add(1)
		go func() {
			defer wg.Done()
			for {
				i := int(next.Add(1)) - 1
				if i >= len(cases) || c10Hangs.Load() >= c10MaxHangs {
					return
				}
				t0 := time.Now()
				t, g := c10Run(cases[i])
				if d := time.Since(t0); d > 50*time.Millisecond && os.Getenv("C10_TIMING") != "" {
					fmt.Fprintf(os.Stderr, "c10 slow case %d: %v %s %s %s\n", i, d, c10ModeString(cases[i]), cases[i].encPlan(), t)
				}
				out[i] = res{t, g}
				done[i] = true
			}
		}()
	}
	wg.Wait()
	if os.Getenv("C10_TIMING") != "" {
		fmt.Fprintf(os.Stderr, "c10: %d cases, generation %v, run %v\n", len(cases), tGen.Sub(tStart), time.Since(tGen))
	}
	for i, c := range cases {
		if !done[i] {
			continue
		}
		ca := "-"
		if c.cancelAt >= 0 {
			ca = strconv.Itoa(c.cancelAt)
		}
		sets := c.encSets()
		if len(c.sets) > 50 {
			// long key lists are regular: "<n>*<set>" (see the generator above)
			sets = fmt.Sprintf("%d*mod3/0", len(c.sets))
		}
		e.emit("C10.batch", c10ModeString(c), itoa(c.icount), ca, sets, c.encOutcomes(), c.encPlan(), c.ringInfo, out[i].trace, out[i].gets)
	}
}
