package main

// C19 — cache wrappers (LRU, versioned, snappy) over the in-process MockCache; jump-hash placement.
//
// Commands (2 input fields each, observation fields after them):
//   C19.ops     <stack> <ops>            | <enc table> <per-op observations> <final dump>
//   C19.pick    <servers|servers2|extra> <keys> | <hashes> <sorted1> <sorted2> <sortedExt> <picks> <picksExt>
//   C19.jump    <key> <n0:count>         | <results>
//   C19.snapdec <bytes> <origin>         | <snappy.Decode result>
//   C19.snapenc <plain> -                | <snappy.Encode result>
//
// Time: one tick = one minute. TTLs and clock steps are whole ticks, so the real time that elapses
// while a case runs (well below a second) never decides an expiry comparison. The backend's clock
// is MockCache.Advance; the LRU's wall clock is moved with cache.VerifLRUShiftClock (verif hook).

import (
	"context"
	"fmt"
	"math"
	"net"
	"sort"
	"strconv"
	"strings"
	"time"

	"github.com/cespare/xxhash/v2"
	"github.com/go-kit/log"
	"github.com/golang/snappy"

	"github.com/grafana/dskit/cache"
)

func init() { register("C19", runC19) }

const c19Tick = time.Minute

type c19Layer struct {
	kind  byte // 'L', 'V', 'S'
	size  int
	dttl  int
	va    uint
	vb    uint
	split bool
}

func (l c19Layer) String() string {
	switch l.kind {
	case 'L':
		return fmt.Sprintf("L%d:%d", l.size, l.dttl)
	case 'V':
		if l.split {
			return fmt.Sprintf("V%d:%d", l.va, l.vb)
		}
		return fmt.Sprintf("V%d", l.va)
	}
	return "S"
}

type c19Client struct {
	top  cache.Cache
	lrus []*cache.LRUCache // in-memory layers on this client's path, top first
	vers []uint            // versions on the path, top first
}

type c19Sys struct {
	be      *cache.MockCache
	beBase  time.Time
	wBase   time.Time
	clients []*c19Client
	allLRU  []*cache.LRUCache
	lruName map[*cache.LRUCache]string
	vTot    int
	wTot    int
	nm      *c19Namer
}

func c19Wrap(l c19Layer, ver uint, below cache.Cache, name string, s *c19Sys, c *c19Client) cache.Cache {
	switch l.kind {
	case 'L':
		lc, err := cache.WrapWithLRUCache(below, name, nil, l.size, time.Duration(l.dttl)*c19Tick, log.NewNopLogger())
		if err != nil {
			panic(err)
		}
		s.allLRU = append(s.allLRU, lc)
		s.lruName[lc] = name
		return lc
	case 'V':
		return cache.NewVersioned(below, ver, log.NewNopLogger())
	default:
		return cache.NewCompression(cache.CompressionConfig{Compression: cache.CompressionSnappy}, below, log.NewNopLogger())
	}
}

func c19Build(layers []c19Layer) *c19Sys {
	s := &c19Sys{be: cache.NewMockCache(), lruName: map[*cache.LRUCache]string{}}
	// read the backend's base time through the public API
	s.be.SetAsync("\x00probe", nil, 0)
	s.beBase = s.be.GetItems()["\x00probe"].ExpiresAt
	_ = s.be.Delete(context.Background(), "\x00probe")
	s.wBase = time.Now()

	split := -1
	for i, l := range layers {
		if l.split {
			split = i
			break
		}
	}
	nClients := 1
	upTo := len(layers) // layers[0:upTo] are private per client
	if split >= 0 {
		nClients = 2
		upTo = split + 1
	}
	// shared lower part, bottom-up
	var low cache.Cache = s.be
	var lowLRU []*cache.LRUCache
	var lowVers []uint
	for i := len(layers) - 1; i >= upTo; i-- {
		n0 := len(s.allLRU)
		low = c19Wrap(layers[i], layers[i].va, low, fmt.Sprintf("low%d", i), s, nil)
		if len(s.allLRU) > n0 {
			lowLRU = append([]*cache.LRUCache{s.allLRU[len(s.allLRU)-1]}, lowLRU...)
		}
		if layers[i].kind == 'V' {
			lowVers = append([]uint{layers[i].va}, lowVers...)
		}
	}
	for c := 0; c < nClients; c++ {
		cl := &c19Client{}
		top := low
		var upLRU []*cache.LRUCache
		var upVers []uint
		for i := upTo - 1; i >= 0; i-- {
			ver := layers[i].va
			if layers[i].split && c == 1 {
				ver = layers[i].vb
			}
			n0 := len(s.allLRU)
			top = c19Wrap(layers[i], ver, top, fmt.Sprintf("c%dl%d", c, i), s, cl)
			if len(s.allLRU) > n0 {
				upLRU = append([]*cache.LRUCache{s.allLRU[len(s.allLRU)-1]}, upLRU...)
			}
			if layers[i].kind == 'V' {
				upVers = append([]uint{ver}, upVers...)
			}
		}
		cl.top = top
		cl.lrus = append(upLRU, lowLRU...)
		cl.vers = append(upVers, lowVers...)
		s.clients = append(s.clients, cl)
	}
	return s
}

// physical backend key of a client's logical key (used by raw writes only)
func (c *c19Client) phys(k string) string {
	for _, v := range c.vers {
		k = fmt.Sprintf("%d@", v) + k
	}
	return k
}

// c19Namer renders byte values compactly and canonically: `#i` = the i-th value of the case's value
// table (exact bytes), `e<j>` = the encoded side of the j-th pair of the encoder table, else hex.
type c19Namer struct {
	vals []string
	encs []string
}

func (n *c19Namer) name(b string) string {
	if n != nil {
		for i, v := range n.vals {
			if v == b {
				return "#" + itoa(i)
			}
		}
		for j, v := range n.encs {
			if v == b {
				return "e" + itoa(j)
			}
		}
	}
	return hx(b)
}

func c19Ticks(t time.Time, base time.Time) int {
	return int(math.Round(float64(t.Sub(base)) / float64(c19Tick)))
}

func c19Res(nm *c19Namer, m map[string][]byte) string {
	if len(m) == 0 {
		return "-"
	}
	ks := make([]string, 0, len(m))
	for k := range m {
		ks = append(ks, k)
	}
	sort.Strings(ks)
	o := make([]string, len(ks))
	for i, k := range ks {
		o[i] = hx(k) + "=" + nm.name(string(m[k]))
	}
	return strings.Join(o, ",")
}

func (s *c19Sys) hints(c *c19Client) string {
	if len(c.lrus) == 0 {
		return "-"
	}
	o := make([]string, len(c.lrus))
	for i, l := range c.lrus {
		ks := cache.VerifLRUKeys(l)
		if len(ks) == 0 {
			o[i] = "~"
		} else {
			o[i] = hxs(ks)
		}
	}
	return strings.Join(o, "/")
}

func (s *c19Sys) dump() string {
	var parts []string
	items := s.be.GetItems()
	ks := make([]string, 0, len(items))
	for k := range items {
		ks = append(ks, k)
	}
	sort.Strings(ks)
	o := make([]string, len(ks))
	for i, k := range ks {
		o[i] = hx(k) + "=" + s.nm.name(string(items[k].Data)) + "@" + itoa(c19Ticks(items[k].ExpiresAt, s.beBase))
	}
	parts = append(parts, "be:"+strings.Join(o, ","))
	for _, l := range s.allLRU {
		its := cache.VerifLRUItems(l)
		o := make([]string, len(its))
		for i, it := range its {
			o[i] = hx(it.Key) + "=" + s.nm.name(string(it.Data)) + "@" + itoa(c19Ticks(it.ExpiresAt, s.wBase)+s.wTot)
		}
		parts = append(parts, s.lruName[l]+":"+strings.Join(o, ","))
	}
	return strings.Join(parts, "|")
}

type c19Op struct {
	kind   string // s a d m g G x tv tw tb r
	client int
	key    string
	val    string
	data   [][2]string
	keys   []string
	nm     *c19Namer
	ttl    int
	phys   string
}

func (o c19Op) String() string {
	c := itoa(o.client)
	switch o.kind {
	case "s", "a", "d":
		return o.kind + c + ":" + hx(o.key) + ":" + o.nm.name(o.val) + ":" + itoa(o.ttl)
	case "m":
		kv := make([]string, len(o.data))
		for i, d := range o.data {
			kv[i] = hx(d[0]) + "=" + o.nm.name(d[1])
		}
		return "m" + c + ":" + strings.Join(kv, ",") + ":" + itoa(o.ttl)
	case "g", "G":
		return o.kind + c + ":" + hxs(o.keys)
	case "x":
		return "x" + c + ":" + hx(o.key)
	case "r":
		return "r" + c + ":" + hx(o.key) + ":" + hx(o.phys) + ":" + hx(o.val) + ":" + itoa(o.ttl)
	}
	return o.kind + ":" + itoa(o.ttl)
}

func c19Copy(s string) []byte { return []byte(s) }

// apply runs one operation against the real wrappers and returns its observation.
func (s *c19Sys) apply(o c19Op) string {
	ctx := context.Background()
	var cl *c19Client
	if o.client < len(s.clients) {
		cl = s.clients[o.client]
	}
	ttl := time.Duration(o.ttl) * c19Tick
	res := "-"
	switch o.kind {
	case "s":
		if err := cl.top.Set(ctx, o.key, c19Copy(o.val), ttl); err != nil {
			res = "err"
		}
	case "a":
		cl.top.SetAsync(o.key, c19Copy(o.val), ttl)
	case "d":
		err := cl.top.Add(ctx, o.key, c19Copy(o.val), ttl)
		switch err {
		case nil:
			res = "ok"
		case cache.ErrNotStored:
			res = "ns"
		default:
			res = "err"
		}
	case "m":
		m := map[string][]byte{}
		for _, d := range o.data {
			m[d[0]] = c19Copy(d[1])
		}
		cl.top.SetMultiAsync(m, ttl)
	case "g":
		m, err := cl.top.GetMultiWithError(ctx, append([]string(nil), o.keys...))
		e := "0"
		if err != nil {
			e = "1"
		}
		res = c19Res(s.nm, m) + "!" + e
	case "G":
		m := cl.top.GetMulti(ctx, append([]string(nil), o.keys...))
		res = c19Res(s.nm, m) + "!?"
	case "x":
		if err := cl.top.Delete(ctx, o.key); err != nil {
			res = "err"
		}
	case "tv":
		s.be.Advance(ttl)
		s.vTot += o.ttl
		return "-"
	case "tw":
		for _, l := range s.allLRU {
			cache.VerifLRUShiftClock(l, ttl)
		}
		s.wTot += o.ttl
		return "-"
	case "tb":
		s.be.Advance(ttl)
		for _, l := range s.allLRU {
			cache.VerifLRUShiftClock(l, ttl)
		}
		s.vTot += o.ttl
		s.wTot += o.ttl
		return "-"
	case "r":
		s.be.SetAsync(o.phys, c19Copy(o.val), ttl)
	}
	return res + "^" + s.hints(cl)
}

var c19KeyPool = []string{"a", "b", "k1", "", "1@a", "@", "7@", "12@b", "2@1@a", "a@1", "2a", "0b", "2@a", "@a", "\x00\xff", "key-with-a-longer-name-0123456789"}

func c19Values(r *rng) []string {
	rnd := make([]byte, 40+r.intn(30))
	for i := range rnd {
		rnd[i] = byte(r.u64())
	}
	pat := strings.Repeat("abcdefgh", 8+r.intn(40))
	long := make([]byte, 300+r.intn(500))
	for i := range long {
		if i%97 < 60 {
			long[i] = "the quick brown fox "[i%20]
		} else {
			long[i] = byte(r.u64())
		}
	}
	pool := []string{"", "x", "v1", "v2", "hello world", "\x00", "\xff\x00\xfe", strings.Repeat("a", 64+r.intn(100)), string(rnd), pat, string(long),
		string(snappy.Encode(nil, []byte("looks-encoded")))}
	n := 3 + r.intn(4)
	out := []string{}
	for len(out) < n {
		v := pick(r, pool)
		dup := false
		for _, w := range out {
			dup = dup || w == v
		}
		if !dup {
			out = append(out, v)
		}
	}
	return out
}

var c19Versions = []uint{0, 1, 2, 7, 10, 12, 21, 123, 4294967295}

func c19GenStack(r *rng) []c19Layer {
	kinds := []byte{}
	for _, k := range []byte{'L', 'V', 'S'} {
		if r.chance(2, 3) {
			kinds = append(kinds, k)
		}
	}
	if r.chance(1, 6) {
		kinds = append(kinds, 'V')
	}
	if r.chance(1, 12) {
		kinds = append(kinds, 'S')
	}
	// stacks with several in-memory layers (any position, also next to each other, private or shared)
	if r.chance(1, 5) {
		kinds = append(kinds, 'L')
		if r.chance(1, 3) {
			kinds = append(kinds, 'L')
		}
	}
	for i := len(kinds) - 1; i > 0; i-- {
		j := r.intn(i + 1)
		kinds[i], kinds[j] = kinds[j], kinds[i]
	}
	layers := make([]c19Layer, len(kinds))
	vIdx := []int{}
	for i, k := range kinds {
		layers[i].kind = k
		switch k {
		case 'L':
			layers[i].size = pick(r, []int{1, 1, 2, 2, 3, 4, 8})
			layers[i].dttl = pick(r, []int{-1, 0, 1, 2, 2, 3, 5, 60})
		case 'V':
			layers[i].va = pick(r, c19Versions)
			vIdx = append(vIdx, i)
		}
	}
	if len(vIdx) > 0 && r.chance(1, 2) {
		i := pick(r, vIdx)
		layers[i].split = true
		for {
			layers[i].vb = pick(r, c19Versions)
			if layers[i].vb != layers[i].va {
				break
			}
		}
		if r.chance(1, 3) { // versions where one is a digit-prefix of the other
			p := pick(r, [][2]uint{{1, 12}, {1, 10}, {12, 123}, {2, 21}, {0, 1}})
			layers[i].va, layers[i].vb = p[0], p[1]
		}
	}
	return layers
}

func c19GenOps(r *rng, layers []c19Layer, nClients int, hasSnap bool) ([]c19Op, []string) {
	// two profiles: "wide" mixes everything; "readHeavy" has few keys, short TTLs, small clock steps and
	// mostly reads, so that chains store -> evict/expire -> back-fill -> hit -> deadline are reached.
	readHeavy := r.chance(2, 5)
	nk := 2 + r.intn(3)
	if readHeavy {
		nk = 1 + r.intn(2)
	}
	keys := []string{}
	for len(keys) < nk {
		k := pick(r, c19KeyPool)
		dup := false
		for _, w := range keys {
			dup = dup || w == k
		}
		if !dup {
			keys = append(keys, k)
		}
	}
	vals := c19Values(r)
	// third profile, for stacks with an in-memory layer: a scripted retention probe — store with a short
	// TTL, push the key out of the in-memory layer, let a read back-fill it while the TTL runs, then read
	// after every clock step until well past TTL + 2x default retention.
	for _, l := range layers {
		if l.kind == 'L' && r.chance(1, 5) {
			k := keys[0]
			c := r.intn(nClients)
			T := 1 + r.intn(3)
			ops := []c19Op{{kind: "s", client: c, key: k, val: pick(r, vals), ttl: T}}
			if r.chance(2, 3) {
				for i := 0; i < l.size; i++ {
					ops = append(ops, c19Op{kind: "s", client: c, key: fmt.Sprintf("filler-%d", i), val: pick(r, vals), ttl: 60})
				}
			} else {
				ops = append(ops, c19Op{kind: "tw", ttl: T + 1})
			}
			if T > 1 && r.chance(1, 2) {
				ops = append(ops, c19Op{kind: "tb", ttl: 1})
			}
			ops = append(ops, c19Op{kind: "g", client: c, keys: []string{k}})
			step := 1
			if l.dttl > 5 {
				step = 13
			}
			d := l.dttl
			if d < 0 {
				d = 0
			}
			for t := 0; t <= T+2*d+2*step; t += step {
				ops = append(ops, c19Op{kind: pick(r, []string{"tb", "tb", "tb", "tw"}), ttl: step})
				if r.chance(1, 6) {
					ops = append(ops, c19Op{kind: "tv", ttl: 1})
				}
				ops = append(ops, c19Op{kind: "g", client: c, keys: []string{k}})
			}
			return ops, vals
		}
	}
	coupled := r.chance(1, 2)
	ttls := []int{-1, 0, 1, 1, 2, 2, 3, 3, 5, 5, 60}
	steps := []int{1, 1, 1, 2, 2, 3, 5, 60}
	// cumulative weights: set, setAsync, add, setMulti, get, del, clock, raw
	cw := []int{16, 22, 32, 42, 72, 80, 95, 100}
	if readHeavy {
		ttls = []int{1, 1, 2, 2, 3, 3, 5, 0}
		steps = []int{1, 1, 1, 1, 2, 2, 3}
		cw = []int{9, 12, 17, 22, 64, 68, 98, 100}
	}
	n := 4 + r.intn(36)
	if r.chance(1, 10) {
		n = 40 + r.intn(60)
	}
	garbage := []string{"\xff\xff\xff", "\x05abc", "\x03\x08ab", "\x00x", "\x04\x0cabcd\x05\x10", "\x0a\x00a\x05\x00", "zzzzzzzzzzzzzzzz"}
	ops := make([]c19Op, 0, n)
	for len(ops) < n {
		o := c19Op{client: r.intn(nClients)}
		w := r.intn(100)
		switch {
		case w < cw[0]:
			o.kind, o.key, o.val, o.ttl = "s", pick(r, keys), pick(r, vals), pick(r, ttls)
		case w < cw[1]:
			o.kind, o.key, o.val, o.ttl = "a", pick(r, keys), pick(r, vals), pick(r, ttls)
		case w < cw[2]:
			o.kind, o.key, o.val, o.ttl = "d", pick(r, keys), pick(r, vals), pick(r, ttls)
		case w < cw[3]:
			o.kind, o.ttl = "m", pick(r, ttls)
			for _, k := range keys {
				if r.chance(2, 3) {
					o.data = append(o.data, [2]string{k, pick(r, vals)})
				}
			}
			for i := len(o.data) - 1; i > 0; i-- {
				j := r.intn(i + 1)
				o.data[i], o.data[j] = o.data[j], o.data[i]
			}
		case w < cw[4]:
			o.kind = "g"
			if r.chance(1, 8) {
				o.kind = "G"
			}
			m := 1 + r.intn(len(keys)+1)
			for i := 0; i < m; i++ {
				o.keys = append(o.keys, pick(r, keys))
			}
			if r.chance(1, 10) {
				o.keys = append(o.keys, "never-stored")
			}
		case w < cw[5]:
			o.kind, o.key = "x", pick(r, keys)
		case w < cw[6]:
			o.ttl = pick(r, steps)
			if coupled {
				o.kind = "tb"
			} else {
				o.kind = pick(r, []string{"tv", "tv", "tw", "tb"})
			}
		default:
			if !hasSnap {
				continue
			}
			o.kind, o.key, o.ttl = "r", pick(r, keys), pick(r, []int{1, 2, 5, 60})
			o.val = pick(r, garbage)
		}
		ops = append(ops, o)
	}
	return ops, vals
}

func c19OpsCase(e *env, r *rng) {
	layers := c19GenStack(r)
	sys := c19Build(layers)
	hasSnap := false
	nSnap := 0
	for _, l := range layers {
		if l.kind == 'S' {
			hasSnap = true
			nSnap++
		}
	}
	nLru := 0
	for _, l := range layers {
		if l.kind == 'L' {
			nLru++
		}
	}
	// foreign undecodable writes only under at most one in-memory layer (the corrupt-entry rules of the
	// judge speak about one such layer)
	ops, vals := c19GenOps(r, layers, len(sys.clients), hasSnap && nLru < 2)
	for i := range ops {
		if ops[i].kind == "r" {
			ops[i].phys = sys.clients[ops[i].client].phys(ops[i].key)
		}
	}
	// encoder table: what snappy.Encode answers for every value that can reach a snappy layer
	nm := &c19Namer{vals: vals}
	tbl := []string{}
	seen := map[string]bool{}
	for _, v := range vals {
		cur := v
		for i := 0; i < nSnap; i++ {
			enc := string(snappy.Encode(nil, []byte(cur)))
			if !seen[cur] {
				seen[cur] = true
				tbl = append(tbl, hx(cur)+"="+hx(enc))
				nm.encs = append(nm.encs, enc)
			}
			cur = enc
		}
	}
	sys.nm = nm
	for i := range ops {
		ops[i].nm = nm
	}
	tblS := "-"
	if len(tbl) > 0 {
		tblS = strings.Join(tbl, ",")
	}
	ls := make([]string, len(layers))
	for i, l := range layers {
		ls[i] = l.String()
	}
	stack := strings.Join(ls, ",")
	if stack == "" {
		stack = "-"
	}
	opS := make([]string, len(ops))
	obs := make([]string, len(ops))
	for i, o := range ops {
		opS[i] = o.String()
		obs[i] = sys.apply(o)
	}
	e.emit("C19.ops", stack+"|"+hxs(vals), strings.Join(opS, ";"), tblS, strings.Join(obs, ";"), sys.dump())
}

// ---- server selection ----

func c19ServerFamily(r *rng, n int) (servers []string, extra string) {
	fam := r.intn(5)
	name := func(i int) string {
		switch fam {
		case 0:
			return fmt.Sprintf("10.0.%d.%d:11211", i/200, 1+i%200)
		case 1:
			return fmt.Sprintf("127.0.0.1:%d", 11211+i)
		case 2:
			return fmt.Sprintf("/srv/memcached-%d.sock", i)
		case 3:
			return fmt.Sprintf("/pods/mc-%d/zone-%d/s.sock", i%7, i/7)
		default:
			if i%2 == 0 {
				return fmt.Sprintf("/srv/mc%d.sock", i)
			}
			return fmt.Sprintf("192.168.%d.%d:%d", i%3, 1+i%250, 11211+i/250)
		}
	}
	start := r.intn(12)
	idx := make([]int, n)
	for i := range idx {
		idx[i] = start + i
	}
	if r.chance(1, 3) { // gaps
		for i := range idx {
			idx[i] = start + i*(1+r.intn(3)) + i
		}
	}
	for _, i := range idx {
		servers = append(servers, name(i))
	}
	ext := idx[n-1] + 1 + r.intn(3)
	if r.chance(1, 6) && n > 1 { // an extra server that does NOT sort last
		ext = idx[0] - 1
		if ext < 0 || fam == 4 {
			ext = idx[n-1] + 1
		}
	}
	extra = name(ext)
	if r.chance(1, 15) && n > 1 { // duplicate = double weight
		servers[r.intn(n)] = servers[r.intn(n)]
	}
	return
}

func c19Each(sel *cache.MemcachedJumpHashSelector) string {
	var o []string
	_ = sel.Each(func(a net.Addr) error { o = append(o, hx(a.String())); return nil })
	if len(o) == 0 {
		return "-"
	}
	return strings.Join(o, ",")
}

func c19PickCase(e *env, r *rng, n int, tie bool) {
	servers, extra := c19ServerFamily(r, n)
	if tie {
		// names that are equal in natural order (same text up to leading zeros of a digit run): natsort's
		// comparison relates them both ways, so "the naturally sorted list" is not unique for such a list
		d := r.intn(30)
		z := pick(r, []string{"0", "00"})
		t1, t2 := fmt.Sprintf("/srv/tie-%d.sock", d), fmt.Sprintf("/srv/tie-%s%d.sock", z, d)
		if r.chance(1, 2) {
			t1, t2 = fmt.Sprintf("/pods/mc-%d/s%d.sock", d, d), fmt.Sprintf("/pods/mc-%s%d/s%d.sock", z, d, d)
		}
		servers[r.intn(len(servers))] = t1
		if len(servers) == 1 || r.chance(1, 2) {
			servers = append(servers, t2)
		} else {
			for {
				j := r.intn(len(servers))
				if servers[j] != t1 {
					servers[j] = t2
					break
				}
			}
		}
		n = len(servers)
	}
	sh1 := append([]string(nil), servers...)
	sh2 := append([]string(nil), servers...)
	for i := len(sh1) - 1; i > 0; i-- {
		j := r.intn(i + 1)
		sh1[i], sh1[j] = sh1[j], sh1[i]
		j = r.intn(i + 1)
		sh2[i], sh2[j] = sh2[j], sh2[i]
	}
	nk := 4 + r.intn(12)
	keys := make([]string, nk)
	for i := range keys {
		switch r.intn(3) {
		case 0:
			keys[i] = fmt.Sprintf("key-%d", r.u64()%100000)
		case 1:
			b := make([]byte, 1+r.intn(40))
			for j := range b {
				b[j] = byte(33 + r.intn(90))
			}
			keys[i] = string(b)
		default:
			keys[i] = fmt.Sprintf("%d@tenant-%d/block/%x", r.intn(3), r.intn(50), r.u64())
		}
	}
	var s1, s2, s3 cache.MemcachedJumpHashSelector
	// The placement must be a function of the LAST list only: half of the cases give s1 a history —
	// an earlier, different list of the same length passed in a buffer that the caller then reuses and
	// edits in place for the final call (what a DNS-refresh loop does), and s3 an earlier shorter list.
	if r.chance(1, 2) {
		prev, _ := c19ServerFamily(r, n)
		if r.chance(1, 2) { // differs from the final list in one position only
			prev = append([]string(nil), sh1...)
			other, _ := c19ServerFamily(r, 1)
			prev[r.intn(len(prev))] = other[0]
		}
		buf := append([]string(nil), prev...)
		if err := s1.SetServers(buf...); err != nil {
			panic(err)
		}
		copy(buf, sh1)
		if err := s1.SetServers(buf...); err != nil {
			panic(err)
		}
		if err := s3.SetServers(sh2...); err != nil {
			panic(err)
		}
	} else if err := s1.SetServers(sh1...); err != nil {
		panic(err)
	}
	if err := s2.SetServers(sh2...); err != nil {
		panic(err)
	}
	ext := append(append([]string(nil), sh2...), extra)
	j := r.intn(len(ext))
	ext[j], ext[len(ext)-1] = ext[len(ext)-1], ext[j]
	if err := s3.SetServers(ext...); err != nil {
		panic(err)
	}
	hashes := make([]string, nk)
	p1 := make([]string, nk)
	p3 := make([]string, nk)
	for i, k := range keys {
		hashes[i] = strconv.FormatUint(xxhash.Sum64String(k), 10)
		a, err := s1.PickServer(k)
		b, err2 := s2.PickServer(k)
		c, err3 := s3.PickServer(k)
		if err != nil || err2 != nil || err3 != nil {
			p1[i], p3[i] = "err", "err"
			continue
		}
		p1[i] = hx(a.String())
		if b.String() != a.String() {
			p1[i] += "/" + hx(b.String()) // same set, other input order, different choice
		}
		p3[i] = hx(c.String())
	}
	e.emit("C19.pick", hxs(sh1)+"|"+hxs(sh2)+"|"+hx(extra), hxs(keys),
		strings.Join(hashes, ","), c19Each(&s1), c19Each(&s2), c19Each(&s3), strings.Join(p1, ","), strings.Join(p3, ","))
}

func c19JumpCase(e *env, r *rng) {
	key := r.u64()
	switch r.intn(8) {
	case 0:
		key = uint64(r.intn(4))
	case 1:
		key = ^uint64(0) - uint64(r.intn(4))
	}
	n0 := 1 + r.intn(70)
	if r.chance(1, 4) {
		n0 = 1 + r.intn(100000)
	}
	cnt := 8 + r.intn(60)
	o := make([]string, cnt)
	for i := 0; i < cnt; i++ {
		o[i] = itoa(int(cache.VerifJumpHash(key, n0+i)))
	}
	e.emit("C19.jump", strconv.FormatUint(key, 10), itoa(n0)+":"+itoa(cnt), strings.Join(o, ","))
}

func c19SnapDec(e *env, b []byte, origin string) {
	if n, err := snappy.DecodedLen(b); err == nil && n > 1<<22 {
		return // a mutated header declaring gigabytes: snappy.Decode would allocate them before failing
	}
	out, err := snappy.Decode(nil, b)
	res := "err"
	if err == nil {
		res = "ok:" + hx(string(out))
	}
	e.emit("C19.snapdec", hx(string(b)), origin, res)
}

func c19SnappyCases(e *env, r *rng, n int) {
	for i := 0; i < n; i++ {
		var plain []byte
		switch r.intn(5) {
		case 0:
			plain = make([]byte, r.intn(80))
			for j := range plain {
				plain[j] = byte(r.u64())
			}
		case 1:
			plain = []byte(strings.Repeat(pick(r, []string{"a", "ab", "abc", "hello ", "0123456789abcdef"}), r.intn(120)))
		case 2:
			plain = make([]byte, r.intn(3000))
			for j := range plain {
				if (j/50)%2 == 0 {
					plain[j] = "lorem ipsum dolor sit amet "[j%27]
				} else {
					plain[j] = byte(r.u64())
				}
			}
		case 3:
			plain = make([]byte, 60000+r.intn(20000))
			for j := range plain {
				plain[j] = byte((j * j) >> 3)
				if j%1000 < 300 {
					plain[j] = byte(r.u64())
				}
			}
			if i%8 != 0 {
				plain = plain[:r.intn(500)]
			}
		default:
			plain = []byte(pick(r, []string{"", "x", "\x00", "aaaa", "abababababababab"}))
		}
		enc := snappy.Encode(nil, plain)
		e.emit("C19.snapenc", hx(string(plain)), "-", hx(string(enc)))
		c19SnapDec(e, enc, "valid")
		// corruptions of a valid block (declared length stays small: at most 5 header bytes, < 2^21 after masking)
		for m := 0; m < 3; m++ {
			c := append([]byte(nil), enc...)
			switch r.intn(4) {
			case 0:
				if len(c) > 1 {
					c = c[:1+r.intn(len(c)-1)]
				}
			case 1:
				if len(c) > 1 {
					p := 1 + r.intn(len(c)-1)
					c[p] ^= byte(1 << r.intn(8))
				}
			case 2:
				c = append(c, byte(r.u64()), byte(r.u64()))
			default:
				c[0] = byte(r.intn(128))
			}
			c19SnapDec(e, c, "mutated")
		}
		// random short blobs
		g := make([]byte, r.intn(12))
		for j := range g {
			g[j] = byte(r.u64())
		}
		if len(g) > 0 {
			g[0] &= 0x7f
		}
		c19SnapDec(e, g, "random")
	}
}

func runC19(e *env) {
	// fixed small cases first
	r0 := newRng(e.seed, 190)
	for n := 1; n <= 64; n++ {
		c19PickCase(e, r0, n, false)
	}
	r1 := newRng(e.seed, 191)
	for i := 0; i < 1200*(1+e.scale)/2; i++ {
		n := 1 + r1.intn(64)
		if r1.chance(1, 3) {
			n = 1 + r1.intn(6)
		}
		c19PickCase(e, r1, n, false)
	}
	r5 := newRng(e.seed, 195)
	for i := 0; i < 60*(1+e.scale)/2; i++ {
		c19PickCase(e, r5, 1+r5.intn(12), true)
	}
	r2 := newRng(e.seed, 192)
	for i := 0; i < 1500*(1+e.scale)/2; i++ {
		c19JumpCase(e, r2)
	}
	r3 := newRng(e.seed, 193)
	c19SnappyCases(e, r3, 150*(1+e.scale)/2)
	r4 := newRng(e.seed, 194)
	nOps := 5000
	if !e.quick {
		nOps = 40000
	}
	for i := 0; i < nOps; i++ {
		c19OpsCase(e, r4)
	}
}
