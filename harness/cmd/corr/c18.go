package main

// C18 - modules initialise, start and stop in dependency order for every graph.
//
//   C18.init <graph;cfg> <targets>  <initFn call order> <result> <service keys>
//   C18.add  <n> <AddDependency calls>  <results> <probe>
//   C18.run  <graph;cfg;targets> <actions>  <snapshots>          (c18run.go)
//
// Modules are named m0..m(n-1). A graph is built with RegisterModule + AddDependency on a real
// modules.Manager; InitModuleServices runs the real initModule / orderedDeps / listDeps.

import (
	"bytes"
	"context"
	"errors"
	"fmt"
	"os"
	"os/exec"
	"runtime/debug"
	"sort"
	"strconv"
	"strings"
	"time"

	"github.com/go-kit/log"

	"github.com/grafana/dskit/modules"
	"github.com/grafana/dskit/services"
)

func init() {
	register("C18", runC18)
	register("C18.probe", c18Probe)
}

func c18Name(i int) string { return "m" + strconv.Itoa(i) }

// c18NameS: module names under naming scheme k. Scheme 0 is m0, m1, ...; scheme k > 0 puts a letter in
// front of the number, letters assigned by a permutation derived from k, so that the lexicographic order
// of the names is unrelated to the module numbers (the code sorts by name in several places).
// The number stays in the name: c18Idx works for every scheme.
func c18NameS(k, i int) string {
	if k == 0 {
		return c18Name(i)
	}
	r := newRng(uint64(k), 77)
	letters := []byte("abcdefghijklmnopqrstuvwxyz")
	for a := len(letters) - 1; a > 0; a-- {
		b := r.intn(a + 1)
		letters[a], letters[b] = letters[b], letters[a]
	}
	return string(letters[i%26]) + strconv.Itoa(i)
}
func c18Idx(name string) int {
	if len(name) < 2 {
		return -1
	}
	i, err := strconv.Atoi(name[1:])
	if err != nil {
		return -1
	}
	return i
}

type c18graph struct {
	n    int
	deps [][]int // insertion order
}

func (g c18graph) String() string {
	parts := make([]string, g.n)
	for i := range parts {
		if len(g.deps[i]) == 0 {
			parts[i] = "-"
			continue
		}
		s := make([]string, len(g.deps[i]))
		for j, d := range g.deps[i] {
			s[j] = strconv.Itoa(d)
		}
		parts[i] = strings.Join(s, ",")
	}
	return strconv.Itoa(g.n) + ";" + strings.Join(parts, "/")
}

type c18cfg struct {
	hasInit, initErr, hasSvc []bool
	names                    int   // naming scheme (c18NameS)
	slices                   int   // how AddDependency's variadic argument is built: 0 fresh slice per call, 1 sub-slices of one flat table, 2 one reused buffer
	opts                     []int // per module: 0 no option, 1 UserInvisibleModule, 2 UserInvisibleTargetableModule, 3 = 1 then 2, 4 = 2 then 1
}

func bits(b []bool) string {
	var sb strings.Builder
	for _, x := range b {
		if x {
			sb.WriteByte('1')
		} else {
			sb.WriteByte('0')
		}
	}
	if sb.Len() == 0 {
		return "-"
	}
	return sb.String()
}
func (c c18cfg) String() string {
	return bits(c.hasInit) + ";" + bits(c.initErr) + ";" + bits(c.hasSvc)
}

// StringO also carries the RegisterModule options (C18.init lines)
func (c c18cfg) StringO() string {
	o := "-"
	if len(c.opts) > 0 {
		var sb strings.Builder
		for _, x := range c.opts {
			sb.WriteString(strconv.Itoa(x))
		}
		o = sb.String()
	}
	return c.String() + ";" + o + ";" + c.namesS()
}

// namesS: the naming scheme and, when not the default, the slice mode (the model ignores both)
func (c c18cfg) namesS() string {
	if c.slices == 0 {
		return strconv.Itoa(c.names)
	}
	return strconv.Itoa(c.names) + "." + strconv.Itoa(c.slices)
}

// c18callerCheck reports whether the slices the caller passed to AddDependency still hold what the caller put there
type c18callerCheck struct{ flat, want []string }

func (c *c18callerCheck) String() string {
	if c == nil || c.flat == nil {
		return "-"
	}
	for i := range c.want {
		if c.flat[i] != c.want[i] {
			return "modified"
		}
	}
	return "ok"
}

var errC18Init = errors.New("scripted init error")

func c18AddClass(err error) string {
	switch {
	case err == nil:
		return "ok"
	case strings.HasPrefix(err.Error(), "no such module"):
		return "nosuch"
	case strings.HasPrefix(err.Error(), "found a circular dependency"):
		return "cycle"
	}
	return "other"
}

// c18Build registers n modules and adds the dependencies with the given calls (module, deps...).
// mkSvc(i) builds the service returned by module i's initFn (nil = no service).
func c18Build(n int, cfg c18cfg, calls [][]int, initLog *[]int, mkSvc func(i int) services.Service) (*modules.Manager, []string, *c18callerCheck) {
	return c18BuildL(log.NewNopLogger(), n, cfg, calls, initLog, mkSvc)
}

func c18BuildL(logger log.Logger, n int, cfg c18cfg, calls [][]int, initLog *[]int, mkSvc func(i int) services.Service) (*modules.Manager, []string, *c18callerCheck) {
	mm := modules.NewManager(logger)
	for i := 0; i < n; i++ {
		i := i
		var fn func() (services.Service, error)
		if cfg.hasInit == nil || cfg.hasInit[i] {
			fn = func() (services.Service, error) {
				*initLog = append(*initLog, i)
				if cfg.initErr != nil && cfg.initErr[i] {
					return nil, errC18Init
				}
				if cfg.hasSvc != nil && cfg.hasSvc[i] && mkSvc != nil {
					return mkSvc(i), nil
				}
				return nil, nil
			}
		}
		switch {
		case len(cfg.opts) == 0 || cfg.opts[i] == 0:
			mm.RegisterModule(c18NameS(cfg.names, i), fn)
		case cfg.opts[i] == 1:
			mm.RegisterModule(c18NameS(cfg.names, i), fn, modules.UserInvisibleModule)
		case cfg.opts[i] == 2:
			mm.RegisterModule(c18NameS(cfg.names, i), fn, modules.UserInvisibleTargetableModule)
		case cfg.opts[i] == 3:
			mm.RegisterModule(c18NameS(cfg.names, i), fn, modules.UserInvisibleModule, modules.UserInvisibleTargetableModule)
		default:
			mm.RegisterModule(c18NameS(cfg.names, i), fn, modules.UserInvisibleTargetableModule, modules.UserInvisibleModule)
		}
	}
	var res []string
	cc := &c18callerCheck{}
	switch cfg.slices {
	case 1:
		// all dependencies in one flat table owned by the caller; each call passes a sub-slice of it (whose spare
		// capacity covers the later calls' entries); the caller never writes to the table again
		for _, c := range calls {
			for _, d := range c[1:] {
				cc.flat = append(cc.flat, c18NameS(cfg.names, d))
			}
		}
		cc.flat = append(cc.flat, "", "")[:len(cc.flat)] // never nil, a little spare capacity at the end
		cc.want = append([]string(nil), cc.flat...)
		at := 0
		for _, c := range calls {
			k := len(c) - 1
			res = append(res, c18AddClass(mm.AddDependency(c18NameS(cfg.names, c[0]), cc.flat[at:at+k]...)))
			at += k
		}
	case 2:
		// one scratch buffer reused by the caller for every call
		buf := make([]string, 0, 4)
		for _, c := range calls {
			buf = buf[:0]
			for _, d := range c[1:] {
				buf = append(buf, c18NameS(cfg.names, d))
			}
			res = append(res, c18AddClass(mm.AddDependency(c18NameS(cfg.names, c[0]), buf...)))
		}
	default:
		for _, c := range calls {
			ds := make([]string, len(c)-1)
			for j, d := range c[1:] {
				ds[j] = c18NameS(cfg.names, d)
			}
			res = append(res, c18AddClass(mm.AddDependency(c18NameS(cfg.names, c[0]), ds...)))
		}
	}
	return mm, res, cc
}

// calls that insert the edges of g: modules in random order, each module's deps possibly split over two calls.
func c18CallsFor(g c18graph, r *rng) [][]int {
	if r.chance(1, 2) {
		return c18EdgeCalls(g, r)
	}
	order := make([]int, g.n)
	for i := range order {
		order[i] = i
	}
	for i := g.n - 1; i > 0; i-- {
		j := r.intn(i + 1)
		order[i], order[j] = order[j], order[i]
	}
	var calls [][]int
	var late [][]int
	for _, m := range order {
		ds := g.deps[m]
		if len(ds) == 0 {
			continue
		}
		if len(ds) > 1 && r.chance(1, 3) {
			k := 1 + r.intn(len(ds)-1)
			calls = append(calls, append([]int{m}, ds[:k]...))
			late = append(late, append([]int{m}, ds[k:]...))
		} else {
			calls = append(calls, append([]int{m}, ds...))
		}
	}
	return append(calls, late...)
}

// c18EdgeCalls: one AddDependency call per edge, all edges in one random order (so the modules'
// dependency slices grow one element at a time and are left with spare capacity).
func c18EdgeCalls(g c18graph, r *rng) [][]int {
	var calls [][]int
	for m, ds := range g.deps {
		for _, d := range ds {
			calls = append(calls, []int{m, d})
		}
	}
	for i := len(calls) - 1; i > 0; i-- {
		j := r.intn(i + 1)
		calls[i], calls[j] = calls[j], calls[i]
	}
	return calls
}

// every module's DependenciesForModule, as module numbers in ascending order: "1,2/-/0"
func c18DepsOfAll(mm *modules.Manager, n, scheme int) string {
	parts := make([]string, n)
	for i := 0; i < n; i++ {
		var ix []int
		for _, d := range mm.DependenciesForModule(c18NameS(scheme, i)) {
			ix = append(ix, c18Idx(d))
		}
		sort.Ints(ix)
		parts[i] = ints(ix)
	}
	if n == 0 {
		return "-"
	}
	return strings.Join(parts, "/")
}

// the deps lists as AddDependency leaves them after the calls (insertion order)
func c18Applied(n int, calls [][]int) c18graph {
	g := c18graph{n: n, deps: make([][]int, n)}
	for _, c := range calls {
		g.deps[c[0]] = append(g.deps[c[0]], c[1:]...)
	}
	return g
}

func ints(xs []int) string {
	if len(xs) == 0 {
		return "-"
	}
	s := make([]string, len(xs))
	for i, x := range xs {
		s[i] = strconv.Itoa(x)
	}
	return strings.Join(s, ",")
}

// c18InitOnce: one InitModuleServices call; the call log is appended to *initLog by the init functions.
func c18InitOnce(mm *modules.Manager, cfg c18cfg, targets []int, initLog *[]int) (log string, result string, keys string) {
	*initLog = nil
	tn := make([]string, len(targets))
	for i, t := range targets {
		tn[i] = c18NameS(cfg.names, t)
	}
	sm, err := mm.InitModuleServices(tn...)
	// the error names the module: "unrecognised module name: X" / "error initialising module: X: <cause>"
	result = "ok"
	switch {
	case err == nil:
	case strings.HasPrefix(err.Error(), "unrecognised module name: "):
		result = "unrecognised:" + strconv.Itoa(c18Idx(strings.TrimPrefix(err.Error(), "unrecognised module name: ")))
	case errors.Is(err, errC18Init) && strings.HasPrefix(err.Error(), "error initialising module: "):
		name := strings.SplitN(strings.TrimPrefix(err.Error(), "error initialising module: "), ":", 2)[0]
		result = "initerr:" + strconv.Itoa(c18Idx(name))
	default:
		result = "other"
	}
	var ks []int
	for k := range sm {
		ks = append(ks, c18Idx(k))
	}
	sort.Ints(ks)
	return ints(*initLog), result, ints(ks)
}

func c18InitCase(e *env, g c18graph, cfg c18cfg, targets []int, r *rng) {
	c18InitCaseCalls(e, g, cfg, targets, c18CallsFor(g, r))
}

func c18InitCaseCalls(e *env, g c18graph, cfg c18cfg, targets []int, calls [][]int) {
	ga := c18Applied(g.n, calls)
	tr := newTrack("C18.init", ga.String()+";"+cfg.StringO())
	tr.step(ints(targets))
	defer tr.done()
	var initLog []int
	mm, res, caller := c18Build(g.n, cfg, calls, &initLog, func(i int) services.Service { return services.NewIdleService(nil, nil) })
	for _, x := range res {
		if x != "ok" {
			// an edge of a DAG was rejected: report it as an observation of its own
			e.emit("C18.init", ga.String()+";"+cfg.StringO(), ints(targets), "-", "add-rejected:"+x, "-", "-", "-", "-", "-", "-", "-", caller.String())
			return
		}
	}
	// the graph as the manager reports it, before and after; two InitModuleServices on the same manager
	depsBefore := c18DepsOfAll(mm, g.n, cfg.names)
	log1, result, keys := c18InitOnce(mm, cfg, targets, &initLog)
	depsAfter := c18DepsOfAll(mm, g.n, cfg.names)
	log2, result2, keys2 := c18InitOnce(mm, cfg, targets, &initLog)
	// visibility flags as the manager reports them
	vis := mm.UserVisibleModuleNames()
	sorted := "1"
	if !sort.StringsAreSorted(vis) {
		sorted = "0"
	}
	var visIdx []int
	for _, v := range vis {
		visIdx = append(visIdx, c18Idx(v))
	}
	sort.Ints(visIdx)
	vb, tb := make([]bool, g.n), make([]bool, g.n)
	for i := 0; i < g.n; i++ {
		vb[i], tb[i] = mm.IsUserVisibleModule(c18NameS(cfg.names, i)), mm.IsTargetableModule(c18NameS(cfg.names, i))
	}
	flags := ints(visIdx) + ";" + bits(vb) + ";" + bits(tb) + ";" + sorted
	if mm.IsUserVisibleModule("nosuch") || mm.IsTargetableModule("nosuch") || mm.IsModuleRegistered("nosuch") || (g.n > 0 && !mm.IsModuleRegistered(c18NameS(cfg.names, 0))) {
		flags += ";unregistered-module-flags"
	}
	e.emit("C18.init", ga.String()+";"+cfg.StringO(), ints(targets), log1, result, keys, flags, depsBefore, depsAfter, log2, result2, keys2, caller.String())
}

// all labelled DAGs on n nodes: deps[i] ∋ j means i depends on j
func c18AllDAGs(n int, f func(g c18graph)) {
	type pair struct{ a, b int }
	var pairs []pair
	for a := 0; a < n; a++ {
		for b := 0; b < n; b++ {
			if a != b {
				pairs = append(pairs, pair{a, b})
			}
		}
	}
	for mask := 0; mask < 1<<len(pairs); mask++ {
		g := c18graph{n: n, deps: make([][]int, n)}
		for k, p := range pairs {
			if mask&(1<<k) != 0 {
				g.deps[p.a] = append(g.deps[p.a], p.b)
			}
		}
		if c18Acyclic(g) {
			f(g)
		}
	}
}

func c18Acyclic(g c18graph) bool {
	state := make([]int, g.n)
	var visit func(i int) bool
	visit = func(i int) bool {
		if state[i] == 1 {
			return false
		}
		if state[i] == 2 {
			return true
		}
		state[i] = 1
		for _, d := range g.deps[i] {
			if !visit(d) {
				return false
			}
		}
		state[i] = 2
		return true
	}
	for i := 0; i < g.n; i++ {
		if !visit(i) {
			return false
		}
	}
	return true
}

func c18RandomDAG(r *rng, n int) c18graph {
	perm := make([]int, n)
	for i := range perm {
		perm[i] = i
	}
	for i := n - 1; i > 0; i-- {
		j := r.intn(i + 1)
		perm[i], perm[j] = perm[j], perm[i]
	}
	g := c18graph{n: n, deps: make([][]int, n)}
	density := 1 + r.intn(5)
	for a := 0; a < n; a++ {
		for b := 0; b < a; b++ {
			if r.chance(density, 8) {
				g.deps[perm[a]] = append(g.deps[perm[a]], perm[b]) // perm[a] depends on the earlier perm[b]
			}
		}
		// shuffle the dependency list and sometimes repeat one
		ds := g.deps[perm[a]]
		for i := len(ds) - 1; i > 0; i-- {
			j := r.intn(i + 1)
			ds[i], ds[j] = ds[j], ds[i]
		}
		if len(ds) > 0 && r.chance(1, 10) {
			g.deps[perm[a]] = append(ds, ds[r.intn(len(ds))])
		}
	}
	return g
}

func c18RandomCfg(r *rng, n int, allowErr bool) c18cfg {
	c := c18cfg{hasInit: make([]bool, n), initErr: make([]bool, n), hasSvc: make([]bool, n)}
	if r.chance(2, 3) {
		c.names = 1 + r.intn(200)
	}
	if r.chance(1, 2) {
		c.slices = 1 + r.intn(2)
	}
	if r.chance(1, 2) {
		c.opts = make([]int, n)
		for i := range c.opts {
			if r.chance(1, 2) {
				c.opts[i] = r.intn(5)
			}
		}
	}
	full := r.chance(1, 3)
	for i := 0; i < n; i++ {
		c.hasInit[i] = full || r.chance(5, 6)
		c.hasSvc[i] = full || r.chance(3, 4)
	}
	if allowErr && r.chance(1, 6) {
		c.initErr[r.intn(n)] = true
	}
	return c
}

// c18Star: a hub (module 0) with k direct dependencies 1..k added by k separate AddDependency calls (its
// dependency slice ends up with spare capacity), and t further edges from spokes to leaves k+1..k+t.
func c18Star(r *rng, k, t int) (c18graph, [][]int) {
	n := 1 + k + t
	var calls [][]int
	for _, d := range c18Shuffled(r, func() []int {
		o := make([]int, k)
		for i := range o {
			o[i] = i + 1
		}
		return o
	}()) {
		calls = append(calls, []int{0, d})
	}
	for j := 0; j < t; j++ {
		calls = append(calls, []int{1 + r.intn(k), k + 1 + j})
	}
	// the spoke->leaf calls anywhere among the hub's calls
	for i := len(calls) - 1; i > 0; i-- {
		if r.chance(1, 3) {
			j := r.intn(i + 1)
			calls[i], calls[j] = calls[j], calls[i]
		}
	}
	return c18Applied(n, calls), calls
}

func c18FullCfg(n int) c18cfg {
	c := c18cfg{hasInit: make([]bool, n), initErr: make([]bool, n), hasSvc: make([]bool, n)}
	for i := 0; i < n; i++ {
		c.hasInit[i], c.hasSvc[i] = true, true
	}
	return c
}

func c18Subsets(n int) [][]int {
	var out [][]int
	for mask := 1; mask < 1<<n; mask++ {
		var s []int
		for i := 0; i < n; i++ {
			if mask&(1<<i) != 0 {
				s = append(s, i)
			}
		}
		out = append(out, s)
	}
	return out
}

func c18Shuffled(r *rng, xs []int) []int {
	o := append([]int{}, xs...)
	for i := len(o) - 1; i > 0; i-- {
		j := r.intn(i + 1)
		o[i], o[j] = o[j], o[i]
	}
	return o
}

// ---------------------------------------------------------------- AddDependency sequences

type c18addCase struct {
	n     int
	calls [][]int
}

func (c c18addCase) callsString() string {
	if len(c.calls) == 0 {
		return "-"
	}
	s := make([]string, len(c.calls))
	for i, cl := range c.calls {
		s[i] = strconv.Itoa(cl[0]) + ">" + ints(cl[1:])
	}
	return strings.Join(s, ";")
}

func c18ParseCalls(s string) [][]int {
	if s == "-" || s == "" {
		return nil
	}
	var out [][]int
	for _, c := range strings.Split(s, ";") {
		p := strings.SplitN(c, ">", 2)
		a, _ := strconv.Atoi(p[0])
		call := []int{a}
		if len(p) == 2 && p[1] != "-" {
			for _, d := range strings.Split(p[1], ",") {
				x, _ := strconv.Atoi(d)
				call = append(call, x)
			}
		}
		out = append(out, call)
	}
	return out
}

// reachable(g, from) over accepted edges (harness bookkeeping, used only to stay away from calls that
// would recurse forever in the harness process once a cycle has been accepted)
func c18Reach(deps [][]int, from int) map[int]bool {
	seen := map[int]bool{}
	var dfs func(i int)
	dfs = func(i int) {
		for _, d := range deps[i] {
			if !seen[d] {
				seen[d] = true
				dfs(d)
			}
		}
	}
	dfs(from)
	return seen
}

func c18OnCycle(deps [][]int) int {
	for i := range deps {
		if c18Reach(deps, i)[i] {
			return i
		}
	}
	return -1
}

func c18AddCase(e *env, c c18addCase) {
	tr := &caseTrack{cmd: "C18.add", cfg: strconv.Itoa(c.n)}
	tr.acts = []string{c.callsString()}
	tr.mark()
	defer tr.done()
	mm := modules.NewManager(log.NewNopLogger())
	for i := 0; i < c.n; i++ {
		mm.RegisterModule(c18Name(i), func() (services.Service, error) { return nil, nil })
	}
	accepted := make([][]int, c.n)
	var res []string
	var done [][]int
	probe := "-"
	for _, cl := range c.calls {
		// stay out of infinite recursion in this process: stop once the accepted edges contain a cycle
		if c18OnCycle(accepted) >= 0 {
			break
		}
		ds := make([]string, len(cl)-1)
		for j, d := range cl[1:] {
			ds[j] = c18Name(d)
		}
		cls := c18AddClass(mm.AddDependency(c18Name(cl[0]), ds...))
		res = append(res, cls)
		done = append(done, cl)
		if cls == "ok" && cl[0] < c.n {
			accepted[cl[0]] = append(accepted[cl[0]], cl[1:]...)
		}
	}
	cc := c18addCase{c.n, done}
	if m := c18OnCycle(accepted); m >= 0 {
		// a cycle was accepted: what InitModuleServices does with it is probed in a child process
		// (never in this process: the recursion in listDeps would not end); the first few cases only
		if c18Probes < 6 {
			c18Probes++
			probe = c18RunProbe(c.n, cc.callsString(), m)
		} else {
			probe = "unprobed:" + strconv.Itoa(m)
		}
	} else if c18Probes < 6 {
		// a self dependency was attempted (and must have been rejected): InitModuleServices of that
		// module, in a child process, must simply return
		for _, cl := range done {
			self := false
			for _, d := range cl[1:] {
				self = self || d == cl[0]
			}
			if self && cl[0] < c.n {
				c18Probes++
				probe = c18RunProbe(c.n, cc.callsString(), cl[0])
				break
			}
		}
	}
	r := "-"
	if len(res) > 0 {
		r = strings.Join(res, ",")
	}
	e.emit("C18.add", strconv.Itoa(c.n), cc.callsString(), r, probe)
}

var c18Probes int

func c18RunProbe(n int, calls string, target int) string {
	ctx, cancel := context.WithTimeout(context.Background(), 60*time.Second)
	defer cancel()
	cmd := exec.CommandContext(ctx, os.Args[0], "C18.probe", strconv.Itoa(n), calls, strconv.Itoa(target))
	var out, errb bytes.Buffer
	cmd.Stdout, cmd.Stderr = &out, &errb
	cmd.Env = append(os.Environ(), "GOTRACEBACK=none")
	err := cmd.Run()
	switch {
	case ctx.Err() != nil:
		return "timeout:" + strconv.Itoa(target)
	case err == nil:
		return strings.TrimSpace(out.String()) + ":" + strconv.Itoa(target)
	case strings.Contains(errb.String(), "stack overflow") || strings.Contains(errb.String(), "stack exceeds"):
		return "crash:" + strconv.Itoa(target)
	}
	return "fail:" + strconv.Itoa(target)
}

// child process: rebuild the graph, call InitModuleServices(target) with a small stack limit.
func c18Probe(e *env) {
	debug.SetMaxStack(1 << 20)
	n, _ := strconv.Atoi(e.args[0])
	calls := c18ParseCalls(e.args[1])
	target, _ := strconv.Atoi(e.args[2])
	mm := modules.NewManager(log.NewNopLogger())
	for i := 0; i < n; i++ {
		mm.RegisterModule(c18Name(i), func() (services.Service, error) { return nil, nil })
	}
	for _, cl := range calls {
		ds := make([]string, len(cl)-1)
		for j, d := range cl[1:] {
			ds[j] = c18Name(d)
		}
		_ = mm.AddDependency(c18Name(cl[0]), ds...)
	}
	_, err := mm.InitModuleServices(c18Name(target))
	if err != nil {
		fmt.Fprintln(e.w, "err")
	} else {
		fmt.Fprintln(e.w, "ok")
	}
}

func c18RandomAddCase(r *rng) c18addCase {
	n := 1 + r.intn(6)
	k := 1 + r.intn(2*n+2)
	c := c18addCase{n: n}
	for i := 0; i < k; i++ {
		name := r.intn(n)
		if r.chance(1, 25) {
			name = n + r.intn(2) // unknown module
		}
		nd := 1 + r.intn(2)
		call := []int{name}
		for j := 0; j < nd; j++ {
			d := r.intn(n)
			if d == name && !r.chance(1, 6) {
				d = (d + 1) % n // self dependencies are the rarer case
			}
			if r.chance(1, 25) {
				d = n + r.intn(2)
			}
			call = append(call, d)
		}
		c.calls = append(c.calls, call)
	}
	return c
}

func runC18(e *env) {
	trackEnv = e
	// the graphs here are small: a runaway recursion in the library ends quickly (and is attributed to the
	// case in flight) instead of growing a stack to the default 1 GB limit
	debug.SetMaxStack(64 << 20)
	only := ""
	if len(e.args) > 0 {
		only = e.args[0]
	}
	if only == "" || only == "init" {
		r := newRng(e.seed, 11)
		// (a) every DAG on up to 4 modules (thorough: 5), every non-empty target subset (ascending and shuffled),
		//     every module with an init function and a service
		maxN := 4
		if !e.quick {
			maxN = 5
		}
		for n := 1; n <= maxN; n++ {
			subsets := c18Subsets(n)
			c18AllDAGs(n, func(g c18graph) {
				for si, s := range subsets {
					if n == 5 && (si*7+len(g.deps[0]))%5 != 0 && e.scale < 100 {
						continue // 29 281 DAGs x 31 subsets: every DAG, one subset in five
					}
					if n == 4 && e.quick && si%3 != int(e.seed%3) {
						continue
					}
					cfg := c18FullCfg(n)
					cfg.names = r.intn(6) * r.intn(7) // 0 (plain names) about a third of the time
					cfg.slices = r.intn(2)            // the reused buffer (mode 2) comes with the random graphs below
					c18InitCase(e, g, cfg, s, r)
					if len(s) > 1 {
						c18InitCase(e, g, cfg, c18Shuffled(r, s), r)
					}
				}
			})
		}
		// (a') one init function fails, at every position: every DAG on <= 3 modules (4: sampled), all modules
		//      targeted in ascending order, the failing module chosen in turn among all of them
		for n := 1; n <= 4; n++ {
			c18AllDAGs(n, func(g c18graph) {
				if n == 4 && e.quick && r.intn(4) != 0 {
					return
				}
				all := make([]int, n)
				for i := range all {
					all[i] = i
				}
				for f := 0; f < n; f++ {
					cfg := c18FullCfg(n)
					cfg.initErr[f] = true
					cfg.slices = r.intn(2) // the reused buffer (mode 2) comes with the random graphs below
					c18InitCase(e, g, cfg, all, r)
					c18InitCase(e, g, cfg, []int{n - 1 - f%n}, r)
				}
			})
		}
		// (a'') hubs whose dependency slice has spare capacity (k separate AddDependency calls) and whose
		//       transitive dependencies exactly fit into it, under many naming schemes
		for rep := 0; rep < 12*e.scale; rep++ {
			for _, kt := range [][2]int{{3, 1}, {5, 1}, {5, 2}, {5, 3}, {6, 1}, {6, 2}, {7, 1}, {3, 0}, {2, 1}, {3, 2}} {
				g, calls := c18Star(r, kt[0], kt[1])
				cfg := c18FullCfg(g.n)
				cfg.names = 1 + r.intn(200)
				if rep%4 == 3 {
					cfg = c18RandomCfg(r, g.n, false)
				}
				c18InitCaseCalls(e, g, cfg, []int{0}, calls)
				all := make([]int, g.n)
				for i := range all {
					all[i] = i
				}
				c18InitCaseCalls(e, g, cfg, c18Shuffled(r, all), calls)
			}
		}
		// (b) random DAGs up to 12 modules, random targets (with repeats / unknown names), modules without
		//     init function or without service, init errors
		nb := 3000 * e.scale
		for i := 0; i < nb; i++ {
			n := 1 + r.intn(12)
			g := c18RandomDAG(r, n)
			cfg := c18RandomCfg(r, n, false)
			nt := 1 + r.intn(3)
			var targets []int
			for j := 0; j < nt; j++ {
				t := r.intn(n)
				if r.chance(1, 25) {
					t = n + 1
				}
				targets = append(targets, t)
			}
			if r.chance(1, 3) {
				// one init function fails: a module inside what the targets need (or, rarely, outside)
				var needed []int
				for _, t := range targets {
					if t < n {
						needed = append(needed, t)
						for d := range c18Reach(g.deps, t) {
							needed = append(needed, d)
						}
					}
				}
				sort.Ints(needed)
				if len(needed) > 0 && !r.chance(1, 8) {
					cfg.initErr[needed[r.intn(len(needed))]] = true
				} else {
					cfg.initErr[r.intn(n)] = true
				}
			}
			c18InitCase(e, g, cfg, targets, r)
		}
	}
	if only == "" || only == "add" {
		r := newRng(e.seed, 12)
		// smallest cases first: one module depending on itself, two modules closing a 2-cycle, ...
		for _, c := range []c18addCase{
			{1, [][]int{{0, 0}}},
			{2, [][]int{{0, 1}, {1, 0}}},
			{2, [][]int{{0, 1}, {1, 1}}},
			{3, [][]int{{0, 1}, {1, 2}, {2, 0}}},
			{3, [][]int{{0, 1}, {1, 2}, {2, 2}}},
			{2, [][]int{{0, 1, 0}}},
			{2, [][]int{{0, 5}}},
			{2, [][]int{{5, 0}}},
		} {
			c18AddCase(e, c)
		}
		na := 1500 * e.scale
		for i := 0; i < na; i++ {
			c18AddCase(e, c18RandomAddCase(r))
		}
	}
	if only == "" || only == "run" {
		runC18Run(e)
	}
	if only == "" || only == "mgr" {
		runC18Mgr(e)
	}
}
