package main

// C06 / C04: clusters of memberlist.KV nodes detached from the network (hook VerifNewDetachedKV).
// The harness IS the network: it pulls GetBroadcasts / LocalState from one node and feeds
// NotifyMsg / MergeRemoteState of another under a seeded adversary (drop = never deliver, duplicate
// = deliver again, delay/reorder = deliver later in any order, corrupt = truncate / flip / unknown
// codec / empty key, partition groups, heal, restart as an empty node).
//
// One case = one history. Line: <cmd> <cfg> <events> <observations>; events and observations are
// space separated and positionally aligned; sub-fields are separated by '!'.
// All entry timestamps are printed relative to `base` (= case start - 100000 s) so that the
// case text does not depend on the wall clock; the clock readings the implementation used
// (tombstone stamps) are part of the observation (DESIGN 1.4, oracle-assisted determinisation).

import (
	"context"
	"encoding/binary"
	"fmt"
	"runtime"
	"sort"
	"strconv"
	"strings"
	"sync"
	"time"

	"github.com/grafana/dskit/flagext"
	"github.com/grafana/dskit/kv/codec"
	"github.com/grafana/dskit/kv/memberlist"
	"github.com/grafana/dskit/ring"
	"github.com/grafana/dskit/services"
)

func init() { register("C06", runC06) }

const c06RelNow = 100000

// instance / owner / partition names: some are proper prefixes of others ("i1" / "i10" / "i1-0", "1" / "10"),
// because the invalidation rule and the merge work on names
var c06RingIDs = []string{"i1", "i10", "i1-0", "i2"}
var c06OwnerIDs = []string{"o1", "o10", "o1-0"}
var c06PartIDs = []int{1, 10, 2}

func c06Idx(names []string, id string) int {
	for i, n := range names {
		if n == id {
			return i
		}
	}
	return 0
}
var c06States = []ring.InstanceState{ring.ACTIVE, ring.LEAVING, ring.PENDING, ring.JOINING}

// ---------------------------------------------------------------- canonical encodings (relative time)

func c06Rel(ts, base int64) int64 {
	if ts == 0 {
		return 0
	}
	return ts - base
}

func c06EncVal(v interface{}, base int64) string {
	switch d := v.(type) {
	case nil:
		return "nil"
	case *ring.Desc:
		if d == nil {
			return "nil"
		}
		c := cloneDesc(d)
		for id, i := range c.Ingesters {
			i.Timestamp = c06Rel(i.Timestamp, base)
			i.ReadOnlyUpdatedTimestamp = c06Rel(i.ReadOnlyUpdatedTimestamp, base)
			c.Ingesters[id] = i
		}
		return "r^" + encDesc(c)
	case *ring.PartitionRingDesc:
		if d == nil {
			return "nil"
		}
		c := clonePDesc(d)
		for id, p := range c.Partitions {
			p.StateTimestamp = c06Rel(p.StateTimestamp, base)
			p.StateChangeLockedTimestamp = c06Rel(p.StateChangeLockedTimestamp, base)
			c.Partitions[id] = p
		}
		for id, o := range c.Owners {
			o.UpdatedTimestamp = c06Rel(o.UpdatedTimestamp, base)
			c.Owners[id] = o
		}
		return "p^" + encPDesc(c)
	default:
		return fmt.Sprintf("?%T", v)
	}
}

func c06RelMs(t time.Time, base int64) string {
	if t.IsZero() {
		return "0"
	}
	return strconv.FormatInt(t.UnixMilli()-base*1000, 10)
}

func c06B(b bool) string {
	if b {
		return "1"
	}
	return "0"
}

// ---------------------------------------------------------------- nodes and watchers

type c06Watcher struct {
	id, node, gen int
	prefix        bool
	key           string
	regVer        map[string]uint // store versions when registered
	pendAtReg     map[string]bool // delayed notifications outstanding when registered
	cancel        context.CancelFunc

	mu    sync.Mutex
	calls []string          // since last settle: "key$val"
	last  map[string]string // key -> last value seen
}

type c06Node struct {
	kv     *memberlist.KV
	rc, pc *memberlist.Client
	gen    int
	hook   *c06EncHook
}

// c06EncHook: the harness owns the codecs of its nodes. broadcastNewValue encodes the change of an update AFTER
// the store lock has been released: Encode is exactly the point where another goroutine's merge of the same key
// can run. A one-shot hook runs such a merge there, deterministically (see doCASInterleaved).
type c06EncHook struct {
	armed func(v interface{})
	last  []byte // bytes produced by the Encode call that ran the hook
	fired bool
}

type c06HookCodec struct {
	codec.Codec
	h *c06EncHook
}

func (hc c06HookCodec) Encode(v interface{}) ([]byte, error) {
	f := hc.h.armed
	if f == nil {
		return hc.Codec.Encode(v)
	}
	hc.h.armed = nil
	f(v)
	b, err := hc.Codec.Encode(v)
	hc.h.last, hc.h.fired = b, true
	return b, err
}

type c06PoolMsg struct {
	data   []byte
	origin int
}

type c06Opts struct {
	cmd       string
	nNodes    int
	mult      int  // RetransmitMult
	lit       int  // LeftIngestersTimeout in seconds (0 = disabled)
	ni        bool // delayed notifications (NotifyInterval > 0)
	clash     bool // shared token pool (outside the quantifier)
	nEvents   int
	removal   int // weight of removals among CAS ops (percent)
	allowSl   bool
	gcOld     bool // write hours-old entries / tombstones (dedicated GC cases)
	skew      bool // writers with a clock ahead of the global clock (outside the quantifier)
	noClose   bool
	script    string // scripted prefix instead of the random history
	startDelta int // first heartbeat of an id is written with timestamp now-startDelta (then strictly newer ones)
	xWeight   int // percent of corrupt-delivery events (default 6)
	keyDelete bool
}

type c06Case struct {
	o      c06Opts
	r      *rng
	base   int64
	nodes  []*c06Node
	pool   []c06PoolMsg
	ws     []*c06Watcher
	events []string
	obs    []string
	group  []int // partition group per node
	// generator bookkeeping: next free delta per (key,id) so that every (id, timestamp) is written once
	delta map[string]int
	slept int
	ppN   int // plain push/pulls so far: every second one is a JOIN push/pull (LocalState(true) / MergeRemoteState(_, true))
}

func (c *c06Case) now() int64 { return time.Now().Unix() - c.base }

func (c *c06Case) newNode(i int) *c06Node {
	var cfg memberlist.KVConfig
	flagext.DefaultValues(&cfg)
	cfg.NodeName = "n" + strconv.Itoa(i)
	hook := &c06EncHook{}
	rcodec, pcodec := c06HookCodec{ring.GetCodec(), hook}, c06HookCodec{ring.GetPartitionRingCodec(), hook}
	cfg.Codecs = []codec.Codec{rcodec, pcodec}
	cfg.RetransmitMult = c.o.mult
	cfg.LeftIngestersTimeout = time.Duration(c.o.lit) * time.Second
	cfg.ObsoleteEntriesTimeout = time.Hour
	if c.o.keyDelete {
		cfg.ObsoleteEntriesTimeout = time.Nanosecond // every key marked deleted is obsolete at the next cleanup
	}
	cfg.MessageHistoryBufferBytes = 0
	if c.o.ni {
		cfg.NotifyInterval = time.Hour
	}
	n := c.o.nNodes
	kv, err := memberlist.VerifNewDetachedKV(cfg, func() int { return n })
	if err != nil {
		panic(err)
	}
	kv.VerifSetCasRetries(1)
	rc, err := memberlist.NewClient(kv, rcodec)
	if err != nil {
		panic(err)
	}
	pc, err := memberlist.NewClient(kv, pcodec)
	if err != nil {
		panic(err)
	}
	return &c06Node{kv: kv, rc: rc, pc: pc, hook: hook}
}

func (c *c06Case) client(n int, key string) *memberlist.Client {
	if strings.HasPrefix(key, "p") {
		return c.nodes[n].pc
	}
	return c.nodes[n].rc
}

// snapshot := store@ql,qg@getview
func (c *c06Case) storeStr(n int) string {
	var ps []string
	for _, e := range c.nodes[n].kv.VerifStoreSnapshot() {
		ps = append(ps, e.Key+"="+strconv.FormatUint(uint64(e.Version), 10)+"^"+c06B(e.Deleted)+"^"+c06RelMs(e.UpdateTime, c.base)+"^"+c06EncVal(e.Value, c.base))
	}
	if len(ps) == 0 {
		return "-"
	}
	return strings.Join(ps, "|")
}

func (c *c06Case) viewOf(n int, key string) string {
	v, err := c.client(n, key).Get(context.Background(), key)
	if err != nil {
		return "err"
	}
	return c06EncVal(v, c.base)
}

func (c *c06Case) snap(n int) string {
	var gs []string
	for _, e := range c.nodes[n].kv.VerifStoreSnapshot() {
		gs = append(gs, e.Key+"="+c.viewOf(n, e.Key))
	}
	g := "-"
	if len(gs) > 0 {
		g = strings.Join(gs, "|")
	}
	ql, qg := c.nodes[n].kv.VerifQueued()
	return c.storeStr(n) + "@" + itoa(ql) + "," + itoa(qg) + "@" + g
}

func (c *c06Case) emit(ev, ob string) {
	c.events = append(c.events, ev)
	c.obs = append(c.obs, ob)
}

// guarded runs f and reports a panic as an observation
func guarded(f func()) (panicked string) {
	defer func() {
		if r := recover(); r != nil {
			panicked = strings.ReplaceAll(strings.ReplaceAll(fmt.Sprint(r), " ", "_"), "\t", "_")
			if len(panicked) > 80 {
				panicked = panicked[:80]
			}
		}
	}()
	f()
	return ""
}

// ---------------------------------------------------------------- CAS workloads (edit scripts)

// static per-id content: address and zone are functions of the id; tokens come from a pool that is
// private to the id (shared in the clash stream).
func c06Tokens(id string, mask int, clash bool) []uint32 {
	k := uint32(c06Idx(c06RingIDs, id))
	pool := []uint32{k*10 + 1, k*10 + 2, k*10 + 3, 1<<32 - 1 - k}
	if clash {
		pool = []uint32{1, 2, 3, 4}
	}
	var out []uint32
	for b := 0; b < 4; b++ {
		if mask&(1<<b) != 0 {
			out = append(out, pool[b])
		}
	}
	sort.Slice(out, func(i, j int) bool { return out[i] < out[j] })
	return out
}

func (c *c06Case) applyRingOps(in interface{}, ops []string, t0 int64) (interface{}, error) {
	var d *ring.Desc
	if in == nil {
		d = ring.NewDesc()
	} else if x, ok := in.(*ring.Desc); ok {
		d = x
	} else {
		return nil, fmt.Errorf("value of another type under a ring key")
	}
	for _, op := range ops {
		f := strings.Split(op, ":")
		switch f[0] {
		case "nil":
			return nil, nil
		case "same":
			// return the value unchanged
		case "hb":
			id := f[1]
			delta, _ := strconv.Atoi(f[2])
			mask, _ := strconv.Atoi(f[4])
			inst := ring.InstanceDesc{Id: id, Addr: "addr-" + id, Zone: "z" + strconv.Itoa(c06Idx(c06RingIDs, id)%2), Timestamp: t0 - int64(delta) + c.base,
				State: codeState[f[3]], Tokens: c06Tokens(id, mask, c.o.clash)}
			// mask bits 4 / 5: this heartbeat switches the instance to read-only / back to read-write (the lifecycler
			// stamps the read-only change with the time of the same update)
			if mask&16 != 0 {
				inst.ReadOnly, inst.ReadOnlyUpdatedTimestamp = true, inst.Timestamp
			} else if mask&32 != 0 {
				inst.ReadOnly, inst.ReadOnlyUpdatedTimestamp = false, inst.Timestamp
			}
			d.Ingesters[id] = inst
		case "rm":
			delete(d.Ingesters, f[1])
		default:
			panic("bad ring op " + op)
		}
	}
	return d, nil
}

func (c *c06Case) applyPartOps(in interface{}, ops []string, t0 int64) (interface{}, error) {
	var d *ring.PartitionRingDesc
	if in == nil {
		d = ring.NewPartitionRingDesc()
	} else if x, ok := in.(*ring.PartitionRingDesc); ok {
		d = x
	} else {
		return nil, fmt.Errorf("value of another type under a partition-ring key")
	}
	for _, op := range ops {
		f := strings.Split(op, ":")
		switch f[0] {
		case "nil":
			return nil, nil
		case "pa": // pa:pid:delta:state
			pid, _ := strconv.Atoi(f[1])
			delta, _ := strconv.Atoi(f[2])
			st, _ := strconv.Atoi(f[3])
			p, ok := d.Partitions[int32(pid)]
			if !ok {
				p = ring.PartitionDesc{Id: int32(pid), Tokens: []uint32{uint32(pid*100 + 1), uint32(pid*100 + 2)}}
			}
			p.State = ring.PartitionState(st)
			p.StateTimestamp = t0 - int64(delta) + c.base
			d.Partitions[int32(pid)] = p
		case "pl": // pl:pid:delta:locked   (only if the partition is visible)
			pid, _ := strconv.Atoi(f[1])
			delta, _ := strconv.Atoi(f[2])
			if p, ok := d.Partitions[int32(pid)]; ok {
				p.StateChangeLocked = f[3] == "1"
				p.StateChangeLockedTimestamp = t0 - int64(delta) + c.base
				d.Partitions[int32(pid)] = p
			}
		case "pr":
			pid, _ := strconv.Atoi(f[1])
			delete(d.Partitions, int32(pid))
		case "oa": // oa:oid:delta:pid:state
			delta, _ := strconv.Atoi(f[2])
			pid, _ := strconv.Atoi(f[3])
			st, _ := strconv.Atoi(f[4])
			d.Owners[f[1]] = ring.OwnerDesc{OwnedPartition: int32(pid), State: ring.OwnerState(st), UpdatedTimestamp: t0 - int64(delta) + c.base}
		case "or":
			delete(d.Owners, f[1])
		default:
			panic("bad partition op " + op)
		}
	}
	return d, nil
}

func (c *c06Case) doCAS(n int, key string, ops string) { c.doCASx(n, key, ops, "") }

// doCASx with other != "": while the broadcast of this CAS is being encoded (store lock released), a full state
// holding a heartbeat of instance `other` for the same key is merged into the node (push/pull runs on its own
// goroutine in a real node). Observed: the value handed to Encode on entry (= the change of the CAS) and what
// the bytes that were queued for gossip decode to.
func (c *c06Case) doCASx(n int, key string, ops string, other string) {
	ev := "cas!" + itoa(n) + "!" + key + "!" + ops
	opl := strings.Split(ops, "+")
	var res string
	var t0, t1 int64
	before := c.nodes[n].kv.VerifStoreSnapshot()
	var ilMsg, ilChg, ilEnc = "-", "-", "-"
	hook := c.nodes[n].hook
	if other != "" {
		ev = "ci!" + itoa(n) + "!" + key + "!" + ops
		dl, _ := c.nextDelta(key + other)
		v, _ := c.applyRingOps(nil, []string{"hb:" + other + ":" + itoa(dl) + ":" + stateCode[pick(c.r, c06States)] + ":" + itoa(1+c.r.intn(15))}, c.now())
		enc, err := ring.GetCodec().Encode(v)
		if err != nil {
			panic(err)
		}
		kvp := memberlist.KeyValuePair{Key: key, Value: enc, Codec: ring.GetCodec().CodecID()}
		ser, _ := kvp.Marshal()
		state := make([]byte, 4, 4+len(ser))
		binary.BigEndian.PutUint32(state, uint32(len(ser)))
		state = append(state, ser...)
		_, content := c.decodeMsgK(ser, false, false)
		hook.fired, hook.last = false, nil
		hook.armed = func(v interface{}) {
			ilChg = c06EncVal(v, c.base)
			ilMsg = content
			c.nodes[n].kv.MergeRemoteState(state, false)
		}
	}
	p := guarded(func() {
		t0 = c.now()
		err := c.client(n, key).CAS(context.Background(), key, func(in interface{}) (interface{}, bool, error) {
			var out interface{}
			var err error
			for _, op := range opl {
				if op == "nil" {
					return nil, false, nil // "no change to be done", whatever the current value is
				}
			}
			if strings.HasPrefix(key, "p") {
				out, err = c.applyPartOps(in, opl, t0)
			} else {
				out, err = c.applyRingOps(in, opl, t0)
			}
			return out, true, err
		})
		t1 = c.now()
		switch {
		case err == nil:
			res = "ok"
		case strings.Contains(err.Error(), "no change detected"):
			res = "nochg"
		default:
			res = "err"
		}
	})
	if p != "" {
		c.emit(ev, "PANIC:"+p)
		return
	}
	hook.armed = nil
	c.waitWatchers(n, false)
	tn := t0
	if t1 != t0 {
		// the second ticked during the call: read the stamp the implementation wrote (if it wrote one)
		tn = c.readStamp(n, key, before, t0, t1)
	}
	if other != "" {
		if hook.fired {
			ilEnc = "undecodable"
			if v, err := ring.GetCodec().Decode(hook.last); err == nil {
				ilEnc = c06EncVal(v, c.base)
			}
		}
		c.emit(ev, itoa(int(t0))+"!"+itoa(int(tn))+"!"+res+"!"+c.snap(n)+"!"+ilMsg+"!"+ilChg+"!"+ilEnc)
		return
	}
	c.emit(ev, itoa(int(t0))+"!"+itoa(int(tn))+"!"+res+"!"+c.snap(n))
}

// scriptInterleave: the FIRST write of a key on a node, with a second update of the same key merged while the
// first one's broadcast is being encoded; then ordinary traffic.
func (c *c06Case) scriptInterleave() {
	r := c.r
	n := r.intn(c.o.nNodes)
	key := pick(r, []string{"r1", "r2"})
	i := r.intn(len(c06RingIDs))
	id, other := c06RingIDs[i], c06RingIDs[(i+1+r.intn(len(c06RingIDs)-1))%len(c06RingIDs)]
	if r.chance(1, 3) {
		// the node has other keys already
		okey := "r2"
		if key == "r2" {
			okey = "r1"
		}
		dl, _ := c.nextDelta(okey + id)
		c.doCAS(n, okey, "hb:"+id+":"+itoa(dl)+":A:3")
	}
	dl, _ := c.nextDelta(key + id)
	c.doCASx(n, key, "hb:"+id+":"+itoa(dl)+":"+stateCode[pick(r, c06States)]+":"+itoa(1+r.intn(15)), other)
	c.doGossip(n)
	b := (n + 1) % c.o.nNodes
	for m := range c.pool {
		c.doDeliver(b, m)
	}
	c.doSettle("st")
}

// scriptRecreate: a watched key is written, deleted (KV.Delete), removed by cleanupObsoleteEntries and then written
// again: the per-key store version starts again at 1. With delayed notifications the watcher is woken once for
// all the new writes, when the new incarnation has reached exactly the version the watcher saw last.
func (c *c06Case) scriptRecreate() {
	r := c.r
	n := r.intn(c.o.nNodes)
	key := pick(r, []string{"r1", "r2"})
	next := 0
	write := func(node int) {
		id := c06RingIDs[next%len(c06RingIDs)]
		next++
		dl, ok := c.nextDelta(key + id)
		if !ok {
			return
		}
		c.doCAS(node, key, "hb:"+id+":"+itoa(dl)+":"+stateCode[pick(r, c06States)]+":"+itoa(1+r.intn(15)))
	}
	c.doWatch(n, false, key)
	if r.chance(1, 2) {
		c.doWatch(n, true, "r")
	}
	k := 1 + r.intn(2)
	for i := 0; i < k; i++ {
		write(n)
	}
	if r.chance(1, 2) {
		c.doSettle("st")
	}
	c.doDelete(n, key)
	c.doSettle("st") // the watcher has been handed version k+1
	c.doCleanup(n)
	for i := 0; i < k+1; i++ {
		write(n) // coalesced: notifications are delayed until the next tick
	}
	c.doSettle("st")
}

// readStamp finds the timestamp of a tombstone created by the last CAS (one that was not a tombstone before).
func (c *c06Case) readStamp(n int, key string, before []memberlist.VerifEntry, t0, t1 int64) int64 {
	isTomb := func(es []memberlist.VerifEntry) map[string]int64 {
		out := map[string]int64{}
		for _, e := range es {
			if e.Key != key {
				continue
			}
			switch d := e.Value.(type) {
			case *ring.Desc:
				for id, i := range d.Ingesters {
					if i.State == ring.LEFT {
						out["i"+id] = i.Timestamp - c.base
					}
				}
			case *ring.PartitionRingDesc:
				for id, p := range d.Partitions {
					if p.State == ring.PartitionDeleted {
						out["p"+strconv.Itoa(int(id))] = p.StateTimestamp - c.base
					}
				}
				for id, o := range d.Owners {
					if o.State == ring.OwnerDeleted {
						out["o"+id] = o.UpdatedTimestamp - c.base
					}
				}
			}
		}
		return out
	}
	b, a := isTomb(before), isTomb(c.nodes[n].kv.VerifStoreSnapshot())
	for k, ts := range a {
		if old, ok := b[k]; (!ok || old != ts) && ts >= t0 && ts <= t1 {
			return ts
		}
	}
	return t0
}

// ---------------------------------------------------------------- network events

func (c *c06Case) decodeMsg(data []byte) (class string, content string) {
	return c.decodeMsgK(data, false, true)
}

// strict: refuse content that cannot be written in the canonical line syntax (used for corrupted input only)
func (c *c06Case) decodeMsgK(data []byte, allowEmptyKey, strict bool) (class string, content string) {
	kvp := memberlist.KeyValuePair{}
	if err := kvp.Unmarshal(data); err != nil {
		return "bad", ""
	}
	if len(kvp.Key) == 0 && !allowEmptyKey {
		return "nokey", ""
	}
	cd := c.nodes[0].kv.GetCodec(kvp.Codec)
	if cd == nil {
		return "nocodec", ""
	}
	val := kvp.Value
	if len(val) == 0 {
		// what mergeBytesValueForKey substitutes for an empty value
		val = []byte{0}
	}
	v, err := cd.Decode(val)
	if err != nil {
		return "badval", ""
	}
	ut := "0"
	if kvp.UpdateTimeMillis != 0 {
		ut = strconv.FormatInt(kvp.UpdateTimeMillis-c.base*1000, 10)
		// "0" is reserved for the zero time: an update time that is not expressible relative to the base
		// (exactly the base, or before the Unix epoch where time.UnixMilli may hit the zero time) is not delivered
		if strict && (ut == "0" || kvp.UpdateTimeMillis < 0) {
			return "odd", ""
		}
	}
	if strict && (!c06CleanName(kvp.Key) || !c06CleanVal(v, c.base)) {
		return "odd", ""
	}
	return "ok", kvp.Key + "=" + c06B(kvp.Deleted) + "^" + ut + "^" + c06EncVal(v, c.base)
}

// c06CleanName / c06CleanVal: can the decoded content be written in the canonical line syntax?
// (corrupted-but-decodable messages with exotic names or enum values are not delivered at all)
func c06CleanName(s string) bool {
	for _, r := range s {
		if !(r >= 'a' && r <= 'z' || r >= 'A' && r <= 'Z' || r >= '0' && r <= '9' || r == '_' || r == '.' || r == '-') {
			return false
		}
	}
	return s != "nil" && s != "-"
}

func c06CleanVal(v interface{}, base int64) bool {
	sane := func(ts int64) bool { return ts == 0 || ts > base && ts < base+2*c06RelNow }
	switch d := v.(type) {
	case *ring.Desc:
		for id, i := range d.Ingesters {
			for j := range i.Tokens {
				if j > 0 && i.Tokens[j-1] >= i.Tokens[j] {
					return false
				}
			}
			if i.State == ring.LEFT && len(i.Tokens) > 0 {
				return false
			}
			if _, ok := stateCode[i.State]; !ok || !sane(i.Timestamp) || !sane(i.ReadOnlyUpdatedTimestamp) || id == "" || !c06CleanName(id) || !c06CleanName(strings.ReplaceAll(i.Addr, "-", "")) || !c06CleanName(i.Zone) {
				return false
			}
		}
		return true
	case *ring.PartitionRingDesc:
		for id, p := range d.Partitions {
			if p.State < 0 || p.Id != id || !sane(p.StateTimestamp) || !sane(p.StateChangeLockedTimestamp) {
				return false
			}
		}
		for id, o := range d.Owners {
			if o.State < 0 || !sane(o.UpdatedTimestamp) || id == "" || !c06CleanName(id) {
				return false
			}
		}
		return true
	}
	return false
}

func (c *c06Case) doGossip(n int) {
	var msgs [][]byte
	p := guarded(func() { msgs = c.nodes[n].kv.GetBroadcasts(0, 1<<30) })
	if p != "" {
		c.emit("g!"+itoa(n), "PANIC:"+p)
		return
	}
	var ps []string
	for _, m := range msgs {
		c.pool = append(c.pool, c06PoolMsg{data: m, origin: n})
		cl, ct := c.decodeMsgK(m, true, false)
		if cl != "ok" {
			ct = "undecodable:" + cl
		}
		ps = append(ps, ct)
	}
	s := "-"
	if len(ps) > 0 {
		s = strings.Join(ps, "|")
	}
	ql, qg := c.nodes[n].kv.VerifQueued()
	c.emit("g!"+itoa(n), itoa(int(c.now()))+"!"+s+"!"+itoa(ql)+","+itoa(qg))
}

func (c *c06Case) doDeliver(n, m int) {
	ev := "d!" + itoa(n) + "!" + itoa(m)
	p := guarded(func() {
		c.nodes[n].kv.NotifyMsg(c.pool[m].data)
		c.nodes[n].kv.VerifQuiesce()
	})
	if p != "" {
		c.emit(ev, "PANIC:"+p)
		return
	}
	c.waitWatchers(n, false)
	c.emit(ev, itoa(int(c.now()))+"!"+c.snap(n))
}

func c06Mutate(r *rng, data []byte, mode string, arg int) []byte {
	out := append([]byte(nil), data...)
	switch mode {
	case "trunc":
		if len(out) > 0 {
			cut := arg % len(out)
			if arg%2 == 0 {
				// boundary cuts: last bytes, inside / just after the first length header
				b := []int{len(out) - 1, len(out) - 2, 1, 2, 3, 4, 5}
				cut = b[(arg/2)%len(b)]
				if cut < 0 || cut > len(out) {
					cut = 0
				}
			}
			out = out[:cut]
		}
	case "flip":
		if len(out) > 0 {
			out[arg%len(out)] ^= byte(1 << uint((arg/len(out))%8))
		}
	case "garbage":
		g := newRng(uint64(arg), 77)
		out = make([]byte, 1+arg%40)
		for i := range out {
			out[i] = byte(g.u64())
		}
	case "empty":
		out = nil
	}
	return out
}

func (c *c06Case) doCorrupt(n, m int, mode string, arg int) {
	ev := "x!" + itoa(n) + "!" + itoa(m) + "!" + mode + "!" + itoa(arg)
	var data []byte
	switch mode {
	case "codec", "nokey":
		kvp := memberlist.KeyValuePair{}
		_ = kvp.Unmarshal(c.pool[m].data)
		if mode == "codec" {
			kvp.Codec = "nope"
		} else {
			kvp.Key = ""
		}
		data, _ = kvp.Marshal()
	default:
		data = c06Mutate(c.r, c.pool[m].data, mode, arg)
	}
	cl, ct := c.decodeMsg(data)
	if cl == "odd" {
		return // decodable but not expressible in the line syntax: not delivered
	}
	before := c.snap(n)
	p := guarded(func() {
		c.nodes[n].kv.NotifyMsg(data)
		c.nodes[n].kv.VerifQuiesce()
	})
	if p != "" {
		c.emit(ev, "PANIC:"+p)
		return
	}
	if cl != "ok" {
		ct = "-"
	}
	c.waitWatchers(n, false)
	c.emit(ev, itoa(int(c.now()))+"!"+cl+"!"+ct+"!"+before+"!"+c.snap(n))
}

// parsePairs splits a LocalState stream the way MergeRemoteState does and classifies every complete pair.
func (c *c06Case) parsePairs(data []byte, strict bool) []string {
	var out []string
	for len(data) > 0 {
		if len(data) < 4 {
			out = append(out, "badframe") // not enough data left for another length prefix
			break
		}
		l := binary.BigEndian.Uint32(data)
		data = data[4:]
		if len(data) < int(l) {
			out = append(out, "badframe") // not enough data left for the announced pair
			break
		}
		kvp := memberlist.KeyValuePair{}
		if err := kvp.Unmarshal(data[:l]); err != nil {
			out = append(out, "bad")
			break
		}
		cl, ct := c.decodeMsgK(data[:l], false, strict) // same validation as NotifyMsg: an empty key is invalid
		data = data[l:]
		if cl == "ok" {
			out = append(out, "ok:"+ct)
		} else {
			out = append(out, cl)
		}
	}
	return out
}

func (c *c06Case) doPushPull(a, b int, mode string, arg int) {
	ev := "pp!" + itoa(a) + "!" + itoa(b)
	if mode != "" {
		ev = "ppx!" + itoa(a) + "!" + itoa(b) + "!" + mode + "!" + itoa(arg)
	}
	// memberlist passes join=true on the initial join, on fast-join and on every periodic re-join, join=false on the
	// periodic push/pull: the state handed over must be the same (the model's LocalState has no such parameter)
	join := false
	if mode == "" {
		join = c.ppN%2 == 1
		c.ppN++
		if join {
			ev = "ppj!" + itoa(a) + "!" + itoa(b)
		}
	}
	var data []byte
	storeA := c.storeStr(a)
	before := c.snap(b)
	var pairs []string
	skipped := false
	p := guarded(func() {
		data = c.nodes[a].kv.LocalState(join)
		if mode == "nokey" {
			data = c06EmptyFirstKey(data)
		} else if mode != "" {
			data = c06Mutate(c.r, data, mode, arg)
		}
		pairs = c.parsePairs(data, mode != "")
		for _, p := range pairs {
			if p == "odd" {
				skipped = true
				return
			}
		}
		c.nodes[b].kv.MergeRemoteState(data, join)
	})
	if p != "" {
		c.emit(ev, "PANIC:"+p)
		return
	}
	if skipped {
		return
	}
	c.waitWatchers(b, false)
	ps := "-"
	if len(pairs) > 0 {
		ps = strings.Join(pairs, "|")
	}
	if mode == "" {
		c.emit(ev, itoa(int(c.now()))+"!"+ps+"!"+storeA+"!"+c.snap(b))
	} else {
		// the delivered bytes themselves, so that the model's framing (C06.framesOf) is checked against the loop
		c.emit(ev, itoa(int(c.now()))+"!"+ps+"!"+before+"!"+c.snap(b)+"!"+hx(string(data)))
	}
}

// c06EmptyFirstKey re-marshals a LocalState stream with the key of its first pair emptied.
func c06EmptyFirstKey(data []byte) []byte {
	if len(data) < 4 {
		return data
	}
	l := binary.BigEndian.Uint32(data)
	if len(data) < int(4+l) {
		return data
	}
	kvp := memberlist.KeyValuePair{}
	if err := kvp.Unmarshal(data[4 : 4+l]); err != nil {
		return data
	}
	kvp.Key = ""
	ser, _ := kvp.Marshal()
	out := make([]byte, 4, 4+len(ser)+len(data))
	binary.BigEndian.PutUint32(out, uint32(len(ser)))
	out = append(out, ser...)
	return append(out, data[4+l:]...)
}

func (c *c06Case) doWatch(n int, prefix bool, key string) {
	w := &c06Watcher{id: len(c.ws), node: n, gen: c.nodes[n].gen, prefix: prefix, key: key, regVer: map[string]uint{}, pendAtReg: map[string]bool{}, last: map[string]string{}}
	ctx, cancel := context.WithCancel(context.Background())
	w.cancel = cancel
	kv := c.nodes[n].kv
	for _, e := range kv.VerifStoreSnapshot() {
		w.regVer[e.Key] = e.Version
	}
	for _, k := range kv.VerifPendingKeyNotifications() {
		w.pendAtReg[k] = true
	}
	have := kv.VerifNumWatchers()
	base := c.base
	if prefix {
		go c.nodes[n].rc.WatchPrefix(ctx, key, func(k string, v interface{}) bool {
			s := c06EncVal(v, base)
			w.mu.Lock()
			w.calls = append(w.calls, k+"$"+s)
			w.last[k] = s
			w.mu.Unlock()
			return true
		})
	} else {
		go c.client(n, key).WatchKey(ctx, key, func(v interface{}) bool {
			s := c06EncVal(v, base)
			w.mu.Lock()
			w.calls = append(w.calls, key+"$"+s)
			w.last[key] = s
			w.mu.Unlock()
			return true
		})
	}
	for i := 0; kv.VerifNumWatchers() == have && i < 200000; i++ {
		runtime.Gosched()
		if i > 1000 {
			time.Sleep(20 * time.Microsecond)
		}
	}
	c.ws = append(c.ws, w)
	kind := "w"
	if prefix {
		kind = "wp"
	}
	c.emit(kind+"!"+itoa(n)+"!"+showStr(key), itoa(int(c.now()))+"!"+c.snap(n))
}

func (c *c06Case) doRestart(n int) {
	_ = services.StopAndAwaitTerminated(context.Background(), c.nodes[n].kv)
	for _, w := range c.ws {
		if w.node == n && w.gen == c.nodes[n].gen {
			w.cancel()
		}
	}
	g := c.nodes[n].gen + 1
	c.nodes[n] = c.newNode(n)
	c.nodes[n].gen = g
	c.emit("rs!"+itoa(n), itoa(int(c.now())))
}

// waitWatchers waits (bounded) until every live watcher of node n has been called with the current
// value of every key whose version changed since the watcher was last in sync. Watcher goroutines
// run as soon as they are notified; this only makes the harness wait for them.
func (c *c06Case) waitWatchers(n int, force bool) {
	if c.o.ni && !force {
		return // notifications are delayed until the next tick
	}
	deadline := time.Now().Add(5 * time.Second)
	var snap []memberlist.VerifEntry
	for _, w := range c.ws {
		if w.node != n || w.gen != c.nodes[n].gen {
			continue
		}
		if snap == nil {
			snap = c.nodes[n].kv.VerifStoreSnapshot()
		}
		for _, e := range snap {
			if w.prefix && !strings.HasPrefix(e.Key, w.key) || !w.prefix && e.Key != w.key {
				continue
			}
			if e.Version == w.regVer[e.Key] && !(force && w.pendAtReg[e.Key]) {
				continue
			}
			w.regVer[e.Key] = e.Version
			want := c.viewOf(n, e.Key)
			for spin := 0; ; spin++ {
				w.mu.Lock()
				got, ok := w.last[e.Key]
				w.mu.Unlock()
				if ok && got == want || time.Now().After(deadline) {
					break
				}
				if spin < 100 {
					runtime.Gosched()
				} else {
					time.Sleep(50 * time.Microsecond)
				}
			}
		}
		if force {
			w.pendAtReg = map[string]bool{}
		}
	}
}

// settle: flush delayed notifications, wait until every live watcher has been called with the
// current value of every key that changed since it was registered (bounded wait), then observe.
func (c *c06Case) doSettle(kind string) {
	for _, nd := range c.nodes {
		nd.kv.VerifQuiesce()
		if c.o.ni {
			nd.kv.VerifSendKeyNotifications()
		}
	}
	for n := range c.nodes {
		c.waitWatchers(n, true)
	}
	parts := []string{itoa(int(c.now()))}
	for n := range c.nodes {
		parts = append(parts, c.snap(n))
	}
	var wl []string
	for _, w := range c.ws {
		live := "1"
		if w.gen != c.nodes[w.node].gen {
			live = "0"
		}
		w.mu.Lock()
		calls := "-"
		if len(w.calls) > 0 {
			calls = strings.Join(w.calls, "&")
		}
		w.calls = nil
		w.mu.Unlock()
		wl = append(wl, itoa(w.id)+"*"+live+"*"+calls)
	}
	ws := "-"
	if len(wl) > 0 {
		ws = strings.Join(wl, "%")
	}
	parts = append(parts, ws)
	c.emit(kind, strings.Join(parts, "!"))
}

// doCleanup runs the obsolete-entries ticker body of node n (cleanupObsoleteEntries)
func (c *c06Case) doCleanup(n int) {
	ev := "co!" + itoa(n)
	p := guarded(func() { c.nodes[n].kv.VerifCleanupObsolete() })
	if p != "" {
		c.emit(ev, "PANIC:"+p)
		return
	}
	// a key that left the store starts again at version 1 when it comes back: the watchers' "last version in
	// sync" must not survive the removal (waitWatchers would otherwise not wait for the callback)
	have := map[string]bool{}
	for _, e := range c.nodes[n].kv.VerifStoreSnapshot() {
		have[e.Key] = true
	}
	for _, w := range c.ws {
		if w.node != n || w.gen != c.nodes[n].gen {
			continue
		}
		for k := range w.regVer {
			if !have[k] {
				delete(w.regVer, k)
			}
		}
	}
	c.emit(ev, itoa(int(c.now()))+"!"+c.snap(n))
}

func (c *c06Case) doDelete(n int, key string) {
	ev := "del!" + itoa(n) + "!" + key
	p := guarded(func() { _ = c.client(n, key).Delete(context.Background(), key) })
	if p != "" {
		c.emit(ev, "PANIC:"+p)
		return
	}
	c.waitWatchers(n, false)
	c.emit(ev, itoa(int(c.now()))+"!"+c.snap(n))
}

// doInject hands node n a gossip message built by the harness (not by a correct replica): the value may be
// ill-formed (unsorted / duplicated tokens, tokens on a LEFT entry, the same token claimed twice). A node that
// has no value for the key stores it verbatim (computeNewValue); the history is outside the quantifier.
func (c *c06Case) doInject(n int, key string, d *ring.Desc) {
	ev := "inj!" + itoa(n) + "!" + key
	enc, err := ring.GetCodec().Encode(d)
	if err != nil {
		panic(err)
	}
	kvp := memberlist.KeyValuePair{Key: key, Value: enc, Codec: ring.GetCodec().CodecID()}
	data, _ := kvp.Marshal()
	cl, ct := c.decodeMsgK(data, false, false)
	if cl != "ok" {
		panic("inject: " + cl)
	}
	p := guarded(func() {
		c.nodes[n].kv.NotifyMsg(data)
		c.nodes[n].kv.VerifQuiesce()
	})
	if p != "" {
		c.emit(ev, "PANIC:"+p)
		return
	}
	c.waitWatchers(n, false)
	c.emit(ev, itoa(int(c.now()))+"!"+ct+"!"+c.snap(n))
}

// scriptFirstValue: an ill-formed first message reaches nodes that have no value for the key (stored verbatim,
// re-gossiped verbatim) and a node that has one (merged: normalised, conflicts resolved).
func (c *c06Case) scriptFirstValue() {
	r := c.r
	key := pick(r, []string{"r1", "r2"})
	d := ring.NewDesc()
	now := c.now() + c.base
	for i, id := range c06RingIDs[:2+r.intn(3)] {
		inst := ring.InstanceDesc{Id: id, Addr: "addr-" + id, Zone: "z" + itoa(i%2), Timestamp: now - int64(1+r.intn(5)), State: pick(r, allStates)}
		nt := 1 + r.intn(4)
		for j := 0; j < nt; j++ {
			inst.Tokens = append(inst.Tokens, uint32(1+r.intn(4))) // unsorted, duplicated, clashing; also on LEFT entries
		}
		d.Ingesters[id] = inst
	}
	c.doInject(0, key, d)
	c.doGossip(0)
	for m := range c.pool {
		c.doDeliver(1, m) // first value at node 1 as well
	}
	if c.o.nNodes > 2 {
		dl, _ := c.nextDelta(key + c06RingIDs[3])
		c.doCAS(2, key, "hb:"+c06RingIDs[3]+":"+itoa(dl)+":A:5")
		for m := range c.pool {
			c.doDeliver(2, m) // merged into an existing value: normalised and resolved
		}
		c.doGossip(2)
	}
	c.doPushPull(1, 0, "", 0)
	c.doSettle("st")
}

// scriptPrefixDrop: node A removes an entry whose name is a proper prefix of another entry's name and
// immediately afterwards writes that other entry: both changes are queued at A; the next gossip batch must
// still carry the tombstone (a queued update is superseded only by an update that CONTAINS it).
func (c *c06Case) scriptPrefixDrop() {
	r := c.r
	n := c.o.nNodes
	a := r.intn(n)
	b := (a + 1 + r.intn(n-1)) % n
	type pair struct{ key, short, long string }
	var pr pair
	part := r.chance(1, 3)
	if part {
		pr = pick(r, []pair{{"p1", "o1", "o10"}, {"p1", "o1", "o1-0"}, {"p1", "1", "10"}})
	} else {
		pr = pick(r, []pair{{"r1", "i1", "i10"}, {"r1", "i1", "i1-0"}, {"r2", "i1", "i10"}})
	}
	wr := func(name string) string {
		// the same per-entry counters as genRingOps / genPartOps (one content per (entry, timestamp))
		ck := pr.key + name
		if part && name[0] == 'o' {
			ck = pr.key + "o" + name
		} else if part {
			ck = pr.key + "p" + name
		}
		d, _ := c.nextDelta(ck)
		switch {
		case !part:
			return "hb:" + name + ":" + itoa(d) + ":" + stateCode[pick(r, c06States)] + ":" + itoa(1+r.intn(15))
		case name[0] == 'o':
			return "oa:" + name + ":" + itoa(d) + ":" + itoa(c06PartIDs[c06Idx(c06OwnerIDs, name)]) + ":1"
		default:
			return "pa:" + name + ":" + itoa(d) + ":" + itoa(1+r.intn(3))
		}
	}
	rm := func(name string) string {
		switch {
		case !part:
			return "rm:" + name
		case name[0] == 'o':
			return "or:" + name
		default:
			return "pr:" + name
		}
	}
	c.doCAS(a, pr.key, wr(pr.short)+"+"+wr(pr.long))
	if r.chance(1, 2) {
		// the registrations are already known to B; A's queue is drained up to the transmit limit
		c.doGossip(a)
		for m := range c.pool {
			c.doDeliver(b, m)
		}
		for i := 0; i < c.o.mult; i++ {
			c.doGossip(a)
		}
	}
	c.doCAS(a, pr.key, rm(pr.short)) // tombstone queued
	c.doCAS(a, pr.key, wr(pr.long))  // heartbeat of the longer name queued right behind it
	nPool := len(c.pool)
	c.doGossip(a)
	for m := nPool; m < len(c.pool); m++ {
		c.doDeliver(b, m)
	}
	c.doSettle("st")
}

// scriptDelPush: a node holds several keys, deletes one of them (KV.Delete: the key-level tombstone stays
// in its store) and then pushes its full state to the others, repeatedly (LocalState serialises the
// keys in random map order, so the deleted key precedes and follows the live ones). The live keys must
// arrive everywhere, never be marked deleted, and their watchers must be called.
func (c *c06Case) scriptDelPush() {
	r := c.r
	n := c.o.nNodes
	a := r.intn(n)
	ks := []string{"r1", "r2", "p1"}
	for i := len(ks) - 1; i > 0; i-- {
		j := r.intn(i + 1)
		ks[i], ks[j] = ks[j], ks[i]
	}
	ks = ks[:2+r.intn(2)]
	write := func(node int, key string) {
		if strings.HasPrefix(key, "p") {
			c.doCAS(node, key, c.genPartOps(node, key))
		} else {
			d, _ := c.nextDelta(key + c06RingIDs[0])
			c.doCAS(node, key, "hb:"+c06RingIDs[0]+":"+itoa(d)+":"+stateCode[pick(r, c06States)]+":"+itoa(1+r.intn(15)))
		}
	}
	for _, k := range ks {
		write(a, k)
	}
	b := (a + 1 + r.intn(n-1)) % n
	live := ks[1:]
	if r.chance(1, 2) {
		c.doPushPull(a, b, "", 0) // the receiver already holds the keys
	}
	if r.chance(2, 3) {
		c.doWatch(b, false, pick(r, live))
	}
	c.doDelete(a, ks[0])
	if r.chance(1, 2) {
		write(a, pick(r, live)) // an acknowledged update of a live key after the delete
	}
	for rep := 0; rep < 2; rep++ {
		for i := 0; i < n; i++ {
			if i != a {
				c.doPushPull(a, i, "", 0)
			}
		}
	}
	if r.chance(1, 2) {
		// the obsolete-entries ticker: the deleted key (and every tombstone inside its value) is forgotten
		c.doCleanup(a)
		c.doCleanup(b)
	}
	c.doSettle("st")
}

// scriptUnknownLeft: the removal of an instance reaches a replica that holds the key but has never
// heard of that instance, BEFORE any message carrying the instance's registration; the older
// registration message arrives afterwards (reordering within the retention). The replica must keep
// the tombstone (it learned of the removal), must not show the instance, and must forward the tombstone.
func (c *c06Case) scriptUnknownLeft() {
	r := c.r
	a, b, cc := 0, 1, 2
	if r.chance(1, 2) {
		a, b, cc = r.intn(3), 0, 0
		b = (a + 1 + r.intn(2)) % 3
		cc = 3 - a - b
	}
	key := pick(r, []string{"r1", "r2"})
	x := pick(r, c06RingIDs[:3])
	other := c06RingIDs[3]
	hb := func(id string) string {
		d, _ := c.nextDelta(key + id)
		return "hb:" + id + ":" + itoa(d) + ":" + stateCode[pick(r, c06States)] + ":" + itoa(1+r.intn(15))
	}
	deliverNew := func(from, to int, want string) {
		// deliver every pooled message of `from` that carries instance `want` to node `to`
		for m := range c.pool {
			if c.pool[m].origin != from {
				continue
			}
			if _, ct := c.decodeMsgK(c.pool[m].data, true, false); strings.Contains(ct, "^"+want+"/") || strings.Contains(ct, ";"+want+"/") {
				c.doDeliver(to, m)
			}
		}
	}
	// C holds the key with another instance only
	c.doCAS(cc, key, hb(other))
	if r.chance(1, 2) {
		c.doWatch(cc, false, key)
	}
	// x registers at A; the registration is on the wire
	c.doCAS(a, key, hb(x))
	c.doGossip(a)
	remover := a
	if r.chance(2, 3) {
		remover = b
		deliverNew(a, b, x)
	}
	if r.chance(1, 3) {
		c.doCAS(a, key, hb(x)) // one more heartbeat, also delayed
		c.doGossip(a)
	}
	// removal (unregistration at A, or an operator forgetting x at B)
	c.doCAS(remover, key, "rm:"+x)
	nPool := len(c.pool)
	if r.chance(2, 3) {
		// the tombstone overtakes the registration: incremental broadcast
		c.doGossip(remover)
		for m := nPool; m < len(c.pool); m++ {
			c.doDeliver(cc, m)
		}
	} else {
		// ... or a full-state exchange
		c.doPushPull(remover, cc, "", 0)
	}
	// now the older registration message(s) arrive at C
	for m := 0; m < nPool; m++ {
		if c.pool[m].origin == a {
			if _, ct := c.decodeMsgK(c.pool[m].data, true, false); strings.Contains(ct, "^"+x+"/") || strings.Contains(ct, ";"+x+"/") {
				c.doDeliver(cc, m)
			}
		}
	}
	// C forwards what it learned
	c.doGossip(cc)
	if r.chance(1, 2) {
		c.doPushPull(cc, (cc+1)%3, "", 0)
	}
	c.doSettle("st")
}

// ---------------------------------------------------------------- generator (online, seeded)

// nextDelta hands out strictly decreasing deltas per entry so that every (entry, timestamp) is written
// at most once per second (one content per (id, timestamp): the coherence proviso). ok=false when the
// entry has already been written with the current second.
func (c *c06Case) nextDelta(k string) (int, bool) {
	d, ok := c.delta[k]
	if !ok {
		d = c.o.startDelta
		if d <= 0 {
			d = 9
		}
		d = 1 + c.r.intn(d)
	}
	if d < 0 {
		return 0, false
	}
	c.delta[k] = d - 1
	return d, true
}

// visible ids of a key at a node (the generator prefers removing what is there)
func (c *c06Case) visible(n int, key string) (ids []string, pids []int, oids []string) {
	v, _ := c.client(n, key).Get(context.Background(), key)
	switch d := v.(type) {
	case *ring.Desc:
		if d != nil {
			for id := range d.Ingesters {
				ids = append(ids, id)
			}
		}
	case *ring.PartitionRingDesc:
		if d != nil {
			for id := range d.Partitions {
				pids = append(pids, int(id))
			}
			for id := range d.Owners {
				oids = append(oids, id)
			}
		}
	}
	sort.Strings(ids)
	sort.Ints(pids)
	sort.Strings(oids)
	return
}

func (c *c06Case) genRingOps(n int, key string) string {
	r := c.r
	var ops []string
	k := 1
	if r.chance(1, 4) {
		k = 2
	}
	vis, _, _ := c.visible(n, key)
	for i := 0; i < k; i++ {
		id := pick(r, c06RingIDs[:2+r.intn(3)])
		switch {
		case r.intn(100) < c.o.removal && (len(vis) > 0 || r.chance(1, 8)):
			if len(vis) > 0 && r.chance(7, 8) {
				id = pick(r, vis)
			}
			ops = append(ops, "rm:"+id)
		case r.chance(1, 40):
			return "nil"
		default:
			d, ok := c.nextDelta(key + id)
			if !ok {
				if len(vis) > 0 {
					ops = append(ops, "rm:"+pick(r, vis))
				}
				continue
			}
			if c.o.gcOld && r.chance(1, 3) {
				d = 20000 + r.intn(3)*1000 + d // hours old
			}
			if c.o.skew && r.chance(1, 3) {
				d = -1 - r.intn(3) // writer's clock ahead of the global clock
			}
			st := stateCode[pick(r, c06States)]
			if c.o.gcOld && r.chance(1, 4) {
				st = "X"
			}
			mask := r.intn(16)
			// read-only toggles (no extra random draw: the case streams stay as they were)
			switch (d + mask) % 5 {
			case 0:
				mask += 16
			case 1:
				mask += 32
			}
			ops = append(ops, "hb:"+id+":"+itoa(d)+":"+st+":"+itoa(mask))
		}
	}
	if len(ops) == 0 {
		return "nil"
	}
	return strings.Join(ops, "+")
}

func (c *c06Case) genPartOps(n int, key string) string {
	r := c.r
	var ops []string
	k := 1
	if r.chance(1, 3) {
		k = 2
	}
	_, vp, vo := c.visible(n, key)
	nd := func(k string) string {
		d, ok := c.nextDelta(key + k)
		if !ok {
			return ""
		}
		return itoa(d)
	}
	for i := 0; i < k; i++ {
		pid := pick(r, c06PartIDs)
		oid := pick(r, c06OwnerIDs)
		rem := r.intn(100) < c.o.removal
		switch r.intn(3) {
		case 0:
			if rem && len(vp) > 0 {
				ops = append(ops, "pr:"+itoa(pick(r, vp)))
			} else {
				if d := nd("p" + itoa(pid)); d != "" {
					ops = append(ops, "pa:"+itoa(pid)+":"+d+":"+itoa(1+r.intn(3)))
				}
			}
		case 1:
			if rem && len(vo) > 0 {
				ops = append(ops, "or:"+pick(r, vo))
			} else {
				if d := nd("o" + oid); d != "" {
					// the owned partition is a function of the owner (static content, like an instance's address)
					ops = append(ops, "oa:"+oid+":"+d+":"+itoa(c06PartIDs[c06Idx(c06OwnerIDs, oid)])+":"+itoa(1))
				}
			}
		default:
			if len(vp) > 0 {
				pid = pick(r, vp)
				if d := nd("l" + itoa(pid)); d != "" {
					ops = append(ops, "pl:"+itoa(pid)+":"+d+":"+itoa(r.intn(2)))
				}
			} else {
				if d := nd("p" + itoa(pid)); d != "" {
					ops = append(ops, "pa:"+itoa(pid)+":"+d+":"+itoa(1+r.intn(3)))
				}
			}
		}
	}
	if len(ops) == 0 {
		return "nil"
	}
	return strings.Join(ops, "+")
}

func (c *c06Case) genCAS(n int) {
	key := pick(c.r, []string{"r1", "r1", "r1", "r2", "p1", "p1"})
	if strings.HasPrefix(key, "p") {
		c.doCAS(n, key, c.genPartOps(n, key))
	} else {
		c.doCAS(n, key, c.genRingOps(n, key))
	}
}

func (c *c06Case) sameGroup(a, b int) bool { return c.group[a] == c.group[b] }

func (c *c06Case) run() (cfg, events, obs string) {
	o := c.o
	r := c.r
	c.base = time.Now().Unix() - c06RelNow
	c.delta = map[string]int{}
	c.group = make([]int, o.nNodes)
	for i := 0; i < o.nNodes; i++ {
		c.nodes = append(c.nodes, c.newNode(i))
	}
	defer func() {
		for _, w := range c.ws {
			w.cancel()
		}
		for _, nd := range c.nodes {
			_ = services.StopAndAwaitTerminated(context.Background(), nd.kv)
		}
	}()
	keys := []string{"r1", "r1", "r1", "r2", "p1", "p1"}
	if o.script == "gcsilent" || o.script == "gcresurrect" {
		// a tombstone reaches a peer only after the retention: the peer's entry is collected in a merge
		// that reports no change (dedicated GC case, DESIGN C04: mergeValueForKey early return)
		c.doCAS(0, "r1", "hb:i1:1:A:3")
		c.doCAS(0, "r1", "hb:i10:1:A:5")
		c.doGossip(0)
		for m := range c.pool {
			c.doDeliver(1, m)
		}
		c.doWatch(1, false, "r1")
		c.doSettle("st")
		c.doCAS(0, "r1", "rm:i1")
		c.doGossip(0)
		for i := 0; i < o.lit+1; i++ {
			time.Sleep(1100 * time.Millisecond)
			c.emit("sl", itoa(int(c.now())))
		}
		c.doDeliver(1, len(c.pool)-1)
		c.doSettle("st")
		if o.script == "gcresurrect" {
			// the registrations, produced before the removal and now older than the retention, arrive again:
			// the tombstone is gone, the entry comes back (allowed: only while retained a tombstone blocks)
			c.doDeliver(1, 0)
			c.doDeliver(1, 1)
			c.doSettle("st")
		}
	}
	if o.script == "unknownleft" && o.nNodes >= 3 {
		c.scriptUnknownLeft()
	}
	if o.script == "delpush" {
		c.scriptDelPush()
	}
	if o.script == "prefixdrop" {
		c.scriptPrefixDrop()
	}
	if o.script == "replace" { // C04 (harness/cmd/corr/c04.go)
		c.scriptReplace()
	}
	if o.script == "firstvalue" {
		c.scriptFirstValue()
	}
	if o.script == "interleave" {
		c.scriptInterleave()
	}
	if o.script == "recreate" {
		c.scriptRecreate()
	}
	for step := 0; step < o.nEvents; step++ {
		n := r.intn(o.nNodes)
		if step < 2 && o.script == "" {
			c.genCAS(n)
			continue
		}
		if o.keyDelete && r.chance(1, 10) {
			c.doDelete(n, pick(r, keys))
			continue
		}
		if o.keyDelete && r.chance(1, 12) {
			c.doCleanup(n)
			continue
		}
		switch x := r.intn(100); {
		case x < 28:
			c.genCAS(n)
		case x < 43:
			// gossip from a node that has something queued (else a CAS)
			found := false
			for k := 0; k < o.nNodes; k++ {
				m := (n + k) % o.nNodes
				if ql, qg := c.nodes[m].kv.VerifQueued(); ql+qg > 0 {
					c.doGossip(m)
					found = true
					break
				}
			}
			if !found {
				c.genCAS(n)
			}
		case x < 68:
			if len(c.pool) == 0 {
				c.doGossip(n)
				continue
			}
			// prefer recent messages, sometimes any (delay / reorder / duplicate)
			m := r.intn(len(c.pool))
			if r.chance(1, 2) && len(c.pool) > 3 {
				m = len(c.pool) - 1 - r.intn(3)
			}
			if !c.sameGroup(c.pool[m].origin, n) {
				continue // dropped by the partition
			}
			c.doDeliver(n, m)
		case x < 74:
			if len(c.pool) == 0 || (o.xWeight > 0 && r.intn(6) >= o.xWeight) {
				continue
			}
			m := r.intn(len(c.pool))
			mode := pick(r, []string{"trunc", "trunc", "flip", "flip", "flip", "codec", "nokey", "garbage", "empty"})
			c.doCorrupt(n, m, mode, r.intn(1<<16))
		case x < 84:
			b := r.intn(o.nNodes)
			if b == n || !c.sameGroup(n, b) {
				continue
			}
			c.doPushPull(n, b, "", 0)
			if r.chance(2, 3) {
				c.doPushPull(b, n, "", 0)
			}
		case x < 87:
			b := r.intn(o.nNodes)
			if b == n {
				continue
			}
			c.doPushPull(n, b, pick(r, []string{"trunc", "trunc", "flip", "flip", "garbage", "nokey"}), r.intn(1<<16))
		case x < 92:
			if r.chance(1, 3) {
				c.doWatch(n, true, pick(r, []string{"r", "", "p"}))
			} else {
				c.doWatch(n, false, pick(r, keys))
			}
		case x < 94:
			if o.nNodes > 1 && r.chance(1, 2) {
				c.doRestart(n)
			}
		case x < 96:
			// partition into two groups / heal
			if r.chance(1, 2) {
				for i := range c.group {
					c.group[i] = r.intn(2)
				}
			} else {
				for i := range c.group {
					c.group[i] = 0
				}
			}
			gs := make([]string, len(c.group))
			for i, g := range c.group {
				gs[i] = itoa(g)
			}
			c.emit("P!"+strings.Join(gs, ","), itoa(int(c.now())))
		case x < 98:
			c.doSettle("st")
		default:
			if o.allowSl && c.slept < 2 {
				c.slept++
				time.Sleep(1100 * time.Millisecond)
				c.emit("sl", itoa(int(c.now())))
			} else if o.keyDelete {
				c.doDelete(n, pick(r, keys))
			}
		}
	}
	if !o.noClose {
		// closing: heal + two full-state sync passes over the star, then settle
		// pass 1: node 0 pulls every node's full state; pass 2: every node pulls node 0's
		for i := 1; i < o.nNodes; i++ {
			c.doPushPull(i, 0, "", 0)
		}
		for i := 1; i < o.nNodes; i++ {
			c.doPushPull(0, i, "", 0)
		}
		c.doSettle("fin")
	}
	cfg = "n=" + itoa(o.nNodes) + ",mult=" + itoa(o.mult) + ",lit=" + itoa(o.lit) + ",ni=" + c06B(o.ni) + ",clash=" + c06B(o.clash) + ",gc=" + c06B(o.gcOld) + ",skew=" + c06B(o.skew) + ",del=" + c06B(o.keyDelete) + ",obs=" + map[bool]string{true: "-1", false: "3600000"}[o.keyDelete]
	return cfg, strings.Join(c.events, " "), strings.Join(c.obs, " ")
}

// c06RunMany runs the cases in parallel and emits them in index order.
func c06RunMany(e *env, cmd string, n int, stream uint64, mk func(i int, r *rng) c06Opts) {
	type res struct{ cfg, ev, ob string }
	out := make([]res, n)
	var wg sync.WaitGroup
	sem := make(chan struct{}, runtime.GOMAXPROCS(0))
	for i := 0; i < n; i++ {
		wg.Add(1)
		sem <- struct{}{}
		go func(i int) {
			defer wg.Done()
			defer func() { <-sem }()
			r := newRng(e.seed, stream*1000003+uint64(i))
			c := &c06Case{o: mk(i, r), r: r}
			c.o.cmd = cmd
			cfg, ev, ob := c.run()
			out[i] = res{cfg, ev, ob}
		}(i)
	}
	wg.Wait()
	for _, x := range out {
		e.emit(cmd, x.cfg, x.ev, x.ob)
	}
}

func c06Invalidation(e *env) {
	r := newRng(e.seed, 61)
	// names: prefixes / substrings of each other, the empty name, names containing characters a joined
	// representation might use as separator
	names := []string{"i1", "i10", "i1-0", "i", "1", "10", "", "i1,i2", "i2", ",", "i1 i2", " ", "i1|i10", "|", "a/b", "/"}
	sub := func(n int) []string {
		var o []string
		for k := 0; k < n; k++ {
			o = append(o, pick(r, names))
		}
		return o
	}
	enc := func(l []string) string {
		if len(l) == 0 {
			return "-"
		}
		o := make([]string, len(l))
		for i, s := range l {
			o[i] = hx(s)
			if s == "" {
				o[i] = "~" // the empty name (hx would print "-", which is the empty list)
			}
		}
		return strings.Join(o, ",")
	}
	emit := func(nk string, nc []string, nv uint, ok string, oc []string, ov uint) {
		got := memberlist.VerifBroadcastInvalidates(nk, nc, nv, ok, oc, ov)
		e.emit("C06.inv", nk, enc(nc), itoa(int(nv)), ok, enc(oc), itoa(int(ov)), c06B(got))
	}
	for i := 0; i < 1500; i++ {
		nk, ok := pick(r, []string{"r1", "r2"}), pick(r, []string{"r1", "r1", "r2"})
		emit(nk, sub(r.intn(4)), uint(r.intn(4)), ok, sub(r.intn(3)), uint(r.intn(4)))
	}
	// old content NOT contained in the new one although every old name is a prefix / substring of a new name
	// or of the new names joined by a separator
	tricky := [][2][]string{
		{{"i10"}, {"i1"}}, {{"i1-0"}, {"i1"}}, {{"i10", "i2"}, {"i1", "i2"}}, {{"i10"}, {"i"}}, {{"i10"}, {""}},
		{{"i1", "i2"}, {"i1,i2"}}, {{"i1", "i2"}, {","}}, {{"i1", "i2"}, {"i1 i2"}}, {{"i1", "i10"}, {"i1|i10"}}, {{"i1", "i10"}, {"|"}},
		{{"a", "b"}, {"a/b"}}, {{"10"}, {"1"}}, {{"10", "2"}, {"1", "2"}}, {{"i1,i2"}, {"i1"}}, {{"i1,i2"}, {"i2"}}, {{"i10"}, {"10"}}, {{"i10"}, {"0"}},
		{{"i1"}, {"i1", "i1"}}, {{"i1", "i1"}, {"i1"}}, {{}, {"i1"}}, {{"i1"}, {}}, {{"", "i1"}, {""}}, {{"i1"}, {""}},
	}
	for _, t := range tricky {
		for _, v := range [][2]uint{{2, 1}, {1, 1}, {1, 2}} {
			emit("r1", t[0], v[0], "r1", t[1], v[1])
			emit("r1", t[0], v[0], "r2", t[1], v[1])
		}
	}
}

func runC06(e *env) {
	c06Invalidation(e)
	// main stream: inside the property's quantifier
	c06RunMany(e, "C06.run", 1400*e.scale, 1, func(i int, r *rng) c06Opts {
		return c06Opts{nNodes: 2 + r.intn(5), mult: 1 + r.intn(3), lit: pick(r, []int{0, 300, 300}), ni: r.chance(1, 4),
			nEvents: 12 + r.intn(30), removal: 15 + r.intn(25)}
	})
	// reordering scenario: the tombstone of an instance reaches a replica that never heard of it first
	c06RunMany(e, "C06.run", 120*e.scale, 7, func(i int, r *rng) c06Opts {
		return c06Opts{nNodes: 3 + r.intn(3), mult: 1 + r.intn(3), lit: pick(r, []int{0, 300}), ni: r.chance(1, 5),
			nEvents: r.intn(14), removal: 25, script: "unknownleft"}
	})
	// clash stream (outside the quantifier: observation only), GC stream, clock-skew stream
	c06RunMany(e, "C06.run", 150*e.scale, 2, func(i int, r *rng) c06Opts {
		return c06Opts{nNodes: 2 + r.intn(3), mult: 2, lit: 0, clash: true, nEvents: 10 + r.intn(20), removal: 15}
	})
	c06RunMany(e, "C06.run", 150*e.scale, 3, func(i int, r *rng) c06Opts {
		return c06Opts{nNodes: 2 + r.intn(2), mult: 2, lit: 3600, gcOld: true, nEvents: 10 + r.intn(20), removal: 20}
	})
	// an ill-formed FIRST message (C05: computeNewValue stores the first value verbatim); outside the quantifier
	c06RunMany(e, "C06.run", 80*e.scale, 10, func(i int, r *rng) c06Opts {
		return c06Opts{nNodes: 2 + r.intn(3), mult: 1 + r.intn(3), lit: pick(r, []int{0, 300}), nEvents: r.intn(6), removal: 20, script: "firstvalue"}
	})
	// a removal immediately followed by a change of an entry whose name has the removed name as a prefix
	c06RunMany(e, "C06.run", 100*e.scale, 9, func(i int, r *rng) c06Opts {
		return c06Opts{nNodes: 2 + r.intn(3), mult: 1 + r.intn(3), lit: pick(r, []int{0, 300}), ni: r.chance(1, 5), nEvents: r.intn(12), removal: 25, script: "prefixdrop"}
	})
	// key-level Delete next to live keys: delete one key, push the full state (both key orders occur)
	c06RunMany(e, "C06.run", 150*e.scale, 8, func(i int, r *rng) c06Opts {
		return c06Opts{nNodes: 2 + r.intn(3), mult: 2, lit: 0, keyDelete: true, ni: r.chance(1, 5), nEvents: r.intn(12), removal: 20, script: "delpush"}
	})
	// a deleted key is cleaned up and re-created under a watcher (the per-key version restarts)
	c06RunMany(e, "C06.run", 60*e.scale, 11, func(i int, r *rng) c06Opts {
		return c06Opts{nNodes: 2 + r.intn(2), mult: 2, lit: 0, keyDelete: true, ni: true, nEvents: r.intn(8), removal: 15, script: "recreate"}
	})
	// the first write of a key with a second merge interleaved while its broadcast is encoded
	c06RunMany(e, "C06.run", 60*e.scale, 12, func(i int, r *rng) c06Opts {
		return c06Opts{nNodes: 2 + r.intn(2), mult: 1 + r.intn(3), lit: pick(r, []int{0, 300}), nEvents: r.intn(8), removal: 15, script: "interleave"}
	})
	// key-level Delete (the Deleted / UpdateTime register): the deleted keys themselves are correspondence only
	c06RunMany(e, "C06.run", 100*e.scale, 6, func(i int, r *rng) c06Opts {
		return c06Opts{nNodes: 2 + r.intn(3), mult: 2, lit: 0, keyDelete: true, nEvents: 12 + r.intn(24), removal: 20}
	})
	c06RunMany(e, "C06.run", 3, 5, func(i int, r *rng) c06Opts {
		return c06Opts{nNodes: 2 + i%2, mult: 1 + i, lit: 2, gcOld: true, ni: i == 2, script: "gcsilent"}
	})
	c06RunMany(e, "C06.run", 12*e.scale, 4, func(i int, r *rng) c06Opts {
		return c06Opts{nNodes: 2 + r.intn(2), mult: 2, lit: 300, allowSl: true, nEvents: 30, removal: 35}
	})
}
