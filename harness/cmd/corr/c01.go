package main

import (
	"bufio"
	"bytes"
	"errors"
	"fmt"
	"math"
	"sort"
	"strconv"
	"strings"
	"time"

	"github.com/grafana/dskit/ring"
)

// C01 — key lookup = consistent-hash replica set + exact quorum slack.
//
// Lines:
//   C01.get    cfg now desc key op api | ringTokens ids maxErrors err
//   C01.merge  lists | merged
//   C01.search tokens key | idx
// Heartbeat timestamps on the line are RELATIVE to `now` (= 0 on the line): the ring is built with
// ts = time.Now().Unix() + rel, where rel is 0/-1/-2 (fresh), +3600 (future), -1800 (healthy only
// under the 3600 s timeout) or -100000 (stale), so a second boundary never flips the health of an
// instance and the case line is a function of the seed only.

func init() {
	register("C01", runC01)
	register("C01.tables", c01Tables)
}

var c01Ops = []ring.Operation{ring.Write, ring.WriteNoExtend, ring.Read, ring.Reporting}

func c01Tables(e *env) {
	w := e.w
	names := []string{"opWrite", "opWriteNoExtend", "opRead", "opReporting"}
	for i, op := range c01Ops {
		fmt.Fprintf(w, "def %s : Nat := %d\n", names[i], uint32(op))
	}
	// the two predicates evaluated by the running code on the five states, in the order
	// ACTIVE, LEAVING, PENDING, JOINING, LEFT (rows: Write, WriteNoExtend, Read, Reporting)
	states := []ring.InstanceState{ring.ACTIVE, ring.LEAVING, ring.PENDING, ring.JOINING, ring.LEFT}
	tab := func(name string, f func(op ring.Operation, s ring.InstanceState) bool) {
		rows := []string{}
		for _, op := range c01Ops {
			cells := []string{}
			for _, s := range states {
				cells = append(cells, strconv.FormatBool(f(op, s)))
			}
			rows = append(rows, "["+strings.Join(cells, ", ")+"]")
		}
		fmt.Fprintf(w, "def %s : List (List Bool) := [%s]\n", name, strings.Join(rows, ", "))
	}
	tab("healthyTable", func(op ring.Operation, s ring.InstanceState) bool { return op.IsInstanceInStateHealthy(s) })
	tab("extendTable", func(op ring.Operation, s ring.InstanceState) bool { return op.ShouldExtendReplicaSetOnState(s) })
	fmt.Fprintf(w, "def stateValues : List Nat := [%d, %d, %d, %d, %d]\n", ring.ACTIVE, ring.LEAVING, ring.PENDING, ring.JOINING, ring.LEFT)
	fmt.Fprintf(w, "def maxToken : Nat := %d\n", uint32(math.MaxUint32))
}

func c01ErrClass(err error) string {
	switch {
	case err == nil:
		return "ok"
	case errors.Is(err, ring.ErrEmptyRing):
		return "emptyRing"
	case errors.Is(err, ring.ErrInconsistentTokensInfo):
		return "inconsistentTokens"
	case errors.Is(err, ring.ErrTooManyUnhealthyInstances):
		return "tooManyUnhealthy"
	case strings.HasPrefix(err.Error(), "at least "):
		return "tooManyUnhealthy"
	case strings.HasPrefix(err.Error(), "per-call replication factor"):
		return "rfTooLarge"
	}
	return "other(" + strings.ReplaceAll(err.Error(), "\t", " ") + ")"
}

type c01Cfg struct {
	rf      int
	za      bool
	timeout int // seconds
	excl    []string // cfg.ExcludedZones (nil: none)
}

func (c c01Cfg) String() string {
	za := "0"
	if c.za {
		za = "1"
	}
	s := fmt.Sprintf("%d,%s,%d", c.rf, za, c.timeout)
	if len(c.excl) > 0 {
		ex := make([]string, len(c.excl))
		for i, z := range c.excl {
			ex[i] = showStr(z)
		}
		s += "," + strings.Join(ex, "|")
	}
	return s
}

// c01Built is a real ring built from a relative descriptor.
type c01Built struct {
	cfg    c01Cfg
	rel    *ring.Desc // timestamps relative to now
	relEnc string
	r      *ring.Ring
	toks   []uint32
	now    string // `now` written on the case line: "0", or "1" for the sub-second boundary stream
	nowSec int64  // the whole second the heartbeats were made relative to
	// buffers a caller keeps across consecutive lookups WITHOUT re-slicing them to length 0: after a lookup
	// they hold its result (descs = the returned Instances slice itself, hosts = the ids of the result
	// appended to the scratch host buffer, zones likewise).
	keptDescs []ring.InstanceDesc
	keptHosts []string
	keptZones []string
}

// c01Prefilled returns buffers of NON-ZERO length holding ids / zones / descs of ring members (all of them,
// in id order, rotated by `rot`) and of one non-member: the lookup must treat its buffers as scratch space
// only, whatever they hold.
func (b *c01Built) prefilled(rot int, withStranger bool) ([]ring.InstanceDesc, []string, []string) {
	ids := make([]string, 0, len(b.rel.Ingesters))
	for id := range b.rel.Ingesters {
		ids = append(ids, id)
	}
	sort.Strings(ids)
	if len(ids) > 0 {
		rot %= len(ids)
		ids = append(append([]string(nil), ids[rot:]...), ids[:rot]...)
	}
	bd := make([]ring.InstanceDesc, 0, len(ids)+1)
	bh := make([]string, 0, len(ids)+1)
	bz := make([]string, 0, len(ids)+1)
	for _, id := range ids {
		in := b.rel.Ingesters[id]
		bd = append(bd, in)
		bh = append(bh, id)
		bz = append(bz, in.Zone)
	}
	if withStranger {
		bd = append(bd, ring.InstanceDesc{Id: "zz-stranger", Addr: "zz-stranger", Zone: "zz-zone"})
		bh = append(bh, "zz-stranger")
		bz = append(bz, "zz-zone")
	}
	return bd, bh, bz
}

func c01Build(cfg c01Cfg, rel *ring.Desc) *c01Built {
	relEnc := encDesc(rel)
	abs := cloneDesc(rel)
	now := time.Now().Unix()
	for id, i := range abs.Ingesters {
		i.Timestamp += now
		abs.Ingesters[id] = i
	}
	rc := ring.Config{HeartbeatTimeout: time.Duration(cfg.timeout) * time.Second, ReplicationFactor: cfg.rf,
		ZoneAwarenessEnabled: cfg.za, SubringCacheDisabled: true, ExcludedZones: append([]string(nil), cfg.excl...)}
	// A third of the rings are not built fresh: the client first holds a predecessor content (an
	// instance more or less, a token hand-over that leaves the merged token list identical, a zone
	// move) and is then updated to the case's content, as a long-lived client would be. The answer
	// must depend on the latest content only, so model and judge see only `rel`.
	var r *ring.Ring
	var err error
	if pred := c01Predecessor(abs, relEnc); pred != nil {
		r, err = ring.VerifNewRing(rc, pred, nil)
		if err == nil {
			r.VerifUpdateRingState(cloneDesc(abs))
		}
	} else {
		r, err = ring.VerifNewRing(rc, abs, nil)
	}
	if err != nil {
		panic(err)
	}
	return &c01Built{cfg: cfg, rel: rel, relEnc: relEnc, r: r, toks: r.VerifRingTokens(), now: "0", nowSec: now}
}

// c01Predecessor derives (deterministically from the case) an earlier ring content, or nil.
func c01Predecessor(abs *ring.Desc, enc string) *ring.Desc {
	h := uint64(14695981039346656037)
	for i := 0; i < len(enc); i++ {
		h = (h ^ uint64(enc[i])) * 1099511628211
	}
	ids := make([]string, 0, len(abs.Ingesters))
	for id := range abs.Ingesters {
		ids = append(ids, id)
	}
	sort.Strings(ids)
	if len(ids) == 0 || h%6 < 3 {
		return nil
	}
	pred := cloneDesc(abs)
	x := ids[(h>>8)%uint64(len(ids))]
	xi := pred.Ingesters[x]
	switch h % 6 {
	case 3: // x registers only now
		delete(pred.Ingesters, x)
	case 4: // x takes its tokens over from a previous owner in another zone: same merged token list
		prev := xi
		prev.Id, prev.Addr, prev.Zone = "zz-prev-owner", "zz-prev-addr", "zz-prev-zone"
		xi.Tokens = nil
		pred.Ingesters[x] = xi
		pred.Ingesters[prev.Id] = prev
	default: // x moves zone, and an instance that has left since is still there
		xi.Zone = "zz-old-zone"
		pred.Ingesters[x] = xi
		pred.Ingesters["zz-gone"] = ring.InstanceDesc{Id: "zz-gone", Addr: "zz-gone", Zone: xi.Zone, State: ring.ACTIVE, Timestamp: xi.Timestamp, Tokens: []uint32{uint32(h >> 32)}}
	}
	return pred
}

// api: "get" (Ring.Get with buffer variant buf) or "opt:<n>" (GetWithOptions(WithReplicationFactor(n))).
// buf: 0 nil buffers, 1 MakeBuffersForGet, 2 empty zero-capacity, 3 tiny capacity, 4/5 NON-ZERO-LENGTH
// buffers pre-filled with the ids/zones/descs of the ring's members (5: plus a non-member), 6 the buffers
// kept from this ring's previous lookup handed in as they are (length = size of the previous result).
func (b *c01Built) lookup(e *env, key uint32, op ring.Operation, api string, buf int) {
	var rs ring.ReplicationSet
	var err error
	func() {
		defer func() {
			if p := recover(); p != nil {
				err = errors.New("panic")
			}
		}()
		if api == "get" {
			var bd []ring.InstanceDesc
			var bh, bz []string
			switch buf {
			case 1:
				bd, bh, bz = ring.MakeBuffersForGet()
			case 2:
				bd, bh = make([]ring.InstanceDesc, 0), make([]string, 0)
			case 3:
				bd, bh = make([]ring.InstanceDesc, 0, 1), make([]string, 0, 2)
			case 4, 5:
				bd, bh, bz = b.prefilled(int(key%7), buf == 5)
			case 6:
				bd, bh, bz = b.keptDescs, b.keptHosts, b.keptZones
			}
			rs, err = b.r.Get(key, op, bd, bh, bz)
		} else {
			n, _ := strconv.Atoi(api[4:])
			opts := []ring.Option{ring.WithReplicationFactor(n)}
			switch buf {
			case 1:
				opts = append(opts, ring.WithBuffers(ring.MakeBuffersForGet()))
			case 4, 5:
				opts = append(opts, ring.WithBuffers(b.prefilled(int(key%7), buf == 5)))
			case 6:
				opts = append(opts, ring.WithBuffers(b.keptDescs, b.keptHosts, b.keptZones))
			}
			rs, err = b.r.GetWithOptions(key, op, opts...)
		}
	}()
	cls := c01ErrClass(err)
	if err != nil && err.Error() == "panic" {
		cls = "panic"
	}
	ids := "-"
	if len(rs.Instances) > 0 {
		s := make([]string, len(rs.Instances))
		for i, in := range rs.Instances {
			s[i] = showStr(in.Id)
		}
		ids = strings.Join(s, ",")
	}
	// what a caller that reuses its buffers holds after this lookup: the result in the descs buffer, the
	// result's ids and zones appended to the (re-sliced once, never again) host and zone buffers
	if err == nil {
		b.keptDescs = rs.Instances
		b.keptHosts, b.keptZones = b.keptHosts[:0], b.keptZones[:0]
		for _, in := range rs.Instances {
			b.keptHosts = append(b.keptHosts, in.Id)
			b.keptZones = append(b.keptZones, in.Zone)
		}
	}
	e.emit("C01.get", b.cfg.String(), b.now, b.relEnc, strconv.FormatUint(uint64(key), 10), c01OpName(op), api,
		u32s(b.toks), ids, itoa(rs.MaxErrors), cls)
}

// boundary keys of a ring: every token, token±1 (wrapping), 0, 2^32-1, plus nRandom random keys.
func c01Keys(r *rng, d *ring.Desc, nRandom int) []uint32 {
	set := map[uint32]bool{0: true, math.MaxUint32: true}
	for _, i := range d.Ingesters {
		for _, t := range i.Tokens {
			set[t] = true
			set[t-1] = true
			set[t+1] = true
		}
	}
	for k := 0; k < nRandom; k++ {
		set[r.u32()] = true
	}
	keys := make([]uint32, 0, len(set))
	for k := range set {
		keys = append(keys, k)
	}
	sort.Slice(keys, func(a, b int) bool { return keys[a] < keys[b] })
	return keys
}

// c01OpName names the four built-in operations (the model and the judge then use their DOCUMENTED
// healthy/extending states, not whatever mask the running code computed for them); any other
// operation is written as its numeric mask.
func c01OpName(op ring.Operation) string {
	switch op {
	case ring.Write:
		return "W"
	case ring.WriteNoExtend:
		return "WN"
	case ring.Read:
		return "R"
	case ring.Reporting:
		return "Rep"
	}
	return strconv.FormatUint(uint64(op), 10)
}

func c01RandOp(r *rng) ring.Operation {
	if r.chance(9, 10) {
		return pick(r, c01Ops)
	}
	return ring.Operation((r.u32() & 0x1f) | (r.u32()&0x1f)<<16)
}

var c01RelTs = []int64{0, 0, 0, -1, -2, 0, -1, -100000, -100000, -1800, 3600, 0, -2}
var c01States = []ring.InstanceState{ring.ACTIVE, ring.ACTIVE, ring.ACTIVE, ring.ACTIVE, ring.ACTIVE, ring.LEAVING, ring.PENDING, ring.JOINING, ring.LEFT}
var c01SmallTokens = []uint32{0, 1, 2, 1<<32 - 3, 1<<32 - 2, 1<<32 - 1}

type c01Gen struct {
	minInst, maxInst int
	maxTokens        int
	tokens           []uint32 // alphabet (nil: boundaryTokens ∪ random)
	pAlphabet        int      // out of 4: probability to draw from the alphabet
	zones            []string
	states           []ring.InstanceState
	tokenless        bool
	pReadOnly        int // out of 8: probability that an instance carries the ReadOnly flag (0: never, no randomness drawn)
	pUnsorted        int // out of 8: probability that an instance lists its (>= 2) tokens out of ascending order
	pDupToken        int // out of 16: probability that an instance lists one of its tokens twice (malformed: diff only)
}

func c01GenDesc(r *rng, g c01Gen) *ring.Desc {
	d := ring.NewDesc()
	n := g.minInst + r.intn(g.maxInst-g.minInst+1)
	used := map[uint32]bool{}
	alpha := g.tokens
	if alpha == nil {
		alpha = boundaryTokens
	}
	for k := 0; k < n; k++ {
		id := "i" + strconv.Itoa(k)
		i := ring.InstanceDesc{Id: id, Addr: "a" + strconv.Itoa(k), State: pick(r, g.states), Zone: pick(r, g.zones), Timestamp: pick(r, c01RelTs)}
		nt := r.intn(g.maxTokens + 1)
		if nt == 0 && !(g.tokenless && r.chance(1, 2)) {
			nt = 1
		}
		for j := 0; j < nt; j++ {
			for tries := 0; tries < 30; tries++ {
				var t uint32
				if r.intn(4) < g.pAlphabet {
					t = pick(r, alpha)
				} else {
					t = r.u32()
				}
				if used[t] {
					continue
				}
				used[t] = true
				i.Tokens = append(i.Tokens, t)
				break
			}
		}
		sort.Slice(i.Tokens, func(a, b int) bool { return i.Tokens[a] < i.Tokens[b] })
		if g.pReadOnly > 0 && r.intn(8) < g.pReadOnly {
			i.ReadOnly = true // Get/GetWithOptions do not treat read-only instances specially
		}
		// "Tokens may not be sorted for an older version": consul/etcd-style stores hand the descriptor to
		// updateRingState as written; Desc.GetTokens must sort each list before the k-way merge.
		if g.pUnsorted > 0 && len(i.Tokens) >= 2 && r.intn(8) < g.pUnsorted {
			for a := len(i.Tokens) - 1; a > 0; a-- {
				b := r.intn(a + 1)
				i.Tokens[a], i.Tokens[b] = i.Tokens[b], i.Tokens[a]
			}
			if sort.SliceIsSorted(i.Tokens, func(a, b int) bool { return i.Tokens[a] < i.Tokens[b] }) {
				i.Tokens[0], i.Tokens[len(i.Tokens)-1] = i.Tokens[len(i.Tokens)-1], i.Tokens[0]
			}
		}
		if g.pDupToken > 0 && len(i.Tokens) >= 1 && r.intn(16) < g.pDupToken {
			i.Tokens = append(i.Tokens, i.Tokens[r.intn(len(i.Tokens))])
		}
		d.Ingesters[id] = i
	}
	return d
}

func c01Zones(r *rng, za bool) []string {
	all := []string{"a", "b", "c", "d", "e", "f", "g"}
	k := r.intn(6) // 0..5 named zones
	zs := append([]string(nil), all[:k]...)
	if k == 0 || r.chance(1, 4) || (!za && r.chance(1, 2)) {
		zs = append(zs, "")
	}
	return zs
}

func runC01(e *env) {
	// ---- MergeTokens (loser tree), deterministic list order --------------------------------------
	{
		r := newRng(e.seed, 100)
		emitMerge := func(lists [][]uint32) {
			enc := make([]string, len(lists))
			cp := make([][]uint32, len(lists))
			for i, l := range lists {
				enc[i] = u32s(l)
				cp[i] = append([]uint32(nil), l...)
			}
			e.emit("C01.merge", strings.Join(enc, ";"), u32s(ring.MergeTokens(cp)))
		}
		M := uint32(math.MaxUint32)
		for _, l := range [][][]uint32{{}, {{}}, {{M}}, {{M}, {}}, {{}, {M}}, {{M}, {}, {5, 9}}, {{5, 9}, {M}, {}}, {{5, 9}, {}, {M}},
			{{5, M}, {}, {7}}, {{M}, {}, {}, {7}}, {{7}, {M}, {}, {}}, {{M}, {7}}, {{M - 1}, {}}, {{0}, {}}, {{}, {}, {}}} {
			emitMerge(l)
		}
		for c := 0; c < 1500*e.scale; c++ {
			n := 1 + r.intn(8)
			used := map[uint32]bool{}
			lists := make([][]uint32, n)
			for i := range lists {
				nt := r.intn(4)
				if r.chance(1, 10) {
					nt = 5 + r.intn(20)
				}
				for j := 0; j < nt; j++ {
					var t uint32
					if r.chance(1, 2) {
						t = pick(r, boundaryTokens)
					} else {
						t = r.u32()
					}
					if !used[t] {
						used[t] = true
						lists[i] = append(lists[i], t)
					}
				}
				sort.Slice(lists[i], func(a, b int) bool { return lists[i][a] < lists[i][b] })
			}
			emitMerge(lists)
		}
	}
	// ---- searchToken -------------------------------------------------------------------------------
	{
		r := newRng(e.seed, 101)
		for c := 0; c < 400*e.scale; c++ {
			n := r.intn(7)
			if r.chance(1, 10) {
				n = 50 + r.intn(200)
			}
			set := map[uint32]bool{}
			for j := 0; j < n; j++ {
				if r.chance(1, 2) {
					set[pick(r, boundaryTokens)] = true
				} else {
					set[r.u32()] = true
				}
			}
			toks := make([]uint32, 0, len(set))
			for t := range set {
				toks = append(toks, t)
			}
			sort.Slice(toks, func(a, b int) bool { return toks[a] < toks[b] })
			keys := map[uint32]bool{0: true, math.MaxUint32: true, r.u32(): true}
			for _, t := range toks {
				if len(toks) < 10 || r.chance(1, 10) {
					keys[t], keys[t-1], keys[t+1] = true, true, true
				}
			}
			ks := make([]uint32, 0, len(keys))
			for k := range keys {
				ks = append(ks, k)
			}
			sort.Slice(ks, func(a, b int) bool { return ks[a] < ks[b] })
			for _, k := range ks {
				e.emit("C01.search", u32s(toks), strconv.FormatUint(uint64(k), 10), itoa(ring.VerifSearchToken(toks, k)))
			}
		}
	}
	// ---- small boundary universe: <=3 instances x <=2 tokens over 6 boundary tokens ---------------
	{
		r := newRng(e.seed, 102)
		for c := 0; c < 160*e.scale; c++ {
			cfg := c01Cfg{rf: 1 + r.intn(3), za: r.chance(1, 2), timeout: 60}
			g := c01Gen{minInst: 1, maxInst: 3, maxTokens: 2, tokens: c01SmallTokens, pAlphabet: 4, zones: []string{"a", "b"},
				states: []ring.InstanceState{ring.ACTIVE, ring.ACTIVE, ring.JOINING, ring.LEAVING}, tokenless: true, pUnsorted: 2}
			if r.chance(1, 4) {
				g.zones = []string{"a", "b", ""}
			}
			if r.chance(1, 4) {
				g.states = c01States
			}
			d := c01GenDesc(r, g)
			if cfg.rf > len(d.Ingesters) && r.chance(1, 2) {
				cfg.rf = len(d.Ingesters)
			}
			b := c01Build(cfg, d)
			for _, k := range c01Keys(r, b.rel, 0) {
				for _, op := range c01Ops {
					b.lookup(e, k, op, "get", r.intn(7))
				}
			}
		}
	}
	// ---- wide generator -------------------------------------------------------------------------
	{
		r := newRng(e.seed, 103)
		for c := 0; c < 500*e.scale; c++ {
			cfg := c01Cfg{rf: 1 + r.intn(5), za: r.chance(1, 2), timeout: 60}
			if r.chance(1, 5) {
				cfg.timeout = 3600
			}
			g := c01Gen{minInst: 1, maxInst: 7, maxTokens: 4, pAlphabet: 2, zones: c01Zones(r, cfg.za), states: c01States, tokenless: true, pReadOnly: 1, pUnsorted: 2, pDupToken: 1}
			d := c01GenDesc(r, g)
			if cfg.rf > len(d.Ingesters) && r.chance(2, 3) {
				cfg.rf = 1 + r.intn(len(d.Ingesters))
			}
			if r.chance(1, 8) { // cfg.ExcludedZones: instances of these zones are dropped before the ring is indexed
				cfg.excl = []string{pick(r, g.zones)}
				if r.chance(1, 3) {
					cfg.excl = append(cfg.excl, pick(r, []string{"a", "b", "zz-unused"}))
				}
			}
			b := c01Build(cfg, d)
			keys := c01Keys(r, b.rel, 3)
			for _, k := range keys {
				if len(keys) > 16 && !r.chance(16, len(keys)) {
					continue
				}
				for j := 0; j < 2; j++ {
					api := "get"
					if r.chance(1, 6) {
						api = "opt:" + itoa(pick(r, []int{0, -1, cfg.rf - 1, cfg.rf, cfg.rf + 1, cfg.rf * 2}))
					}
					b.lookup(e, k, c01RandOp(r), api, r.intn(7))
				}
			}
		}
	}
	// ---- rings containing token 2^32-1: alone in an instance, with other tokens, next to token-less
	//      instances (the loser-tree sentinel equals this token; pre-fix a6b17a3 it was dropped) -------
	{
		r := newRng(e.seed, 104)
		M := uint32(math.MaxUint32)
		for c := 0; c < 150*e.scale; c++ {
			cfg := c01Cfg{rf: 1 + r.intn(3), za: r.chance(1, 3), timeout: 60}
			g := c01Gen{minInst: 1, maxInst: 5, maxTokens: 3, pAlphabet: 2, tokens: []uint32{0, 1, 7, 1 << 31, M - 2, M - 1},
				zones: c01Zones(r, cfg.za), states: c01States, tokenless: true}
			d := c01GenDesc(r, g)
			// place the maximal token
			ids := make([]string, 0, len(d.Ingesters))
			for id := range d.Ingesters {
				ids = append(ids, id)
			}
			sort.Strings(ids)
			id := pick(r, ids)
			in := d.Ingesters[id]
			switch r.intn(3) {
			case 0: // alone
				in.Tokens = []uint32{M}
			default: // with others (appended: still sorted)
				in.Tokens = append(append([]uint32(nil), in.Tokens...), M)
			}
			if r.chance(2, 3) {
				in.State = ring.ACTIVE
				in.Timestamp = 0
			}
			d.Ingesters[id] = in
			if r.chance(1, 2) { // add a token-less instance
				nid := "i" + itoa(len(ids))
				d.Ingesters[nid] = ring.InstanceDesc{Id: nid, Addr: "a" + nid, State: pick(r, c01States), Zone: pick(r, g.zones)}
			}
			b := c01Build(cfg, d)
			for _, k := range c01Keys(r, b.rel, 1) {
				if !r.chance(1, 2) && k != M && k != M-1 && k != 0 {
					continue
				}
				b.lookup(e, k, c01RandOp(r), "get", r.intn(7))
			}
		}
	}
	// ---- large rings: stringSet slice->map switch, more than 5 zones, many tokens ------------------
	{
		r := newRng(e.seed, 105)
		for c := 0; c < 40*e.scale; c++ {
			cfg := c01Cfg{rf: 3 + r.intn(3), za: r.chance(1, 2), timeout: 60}
			zs := []string{"a", "b", "c"}
			if r.chance(1, 2) {
				zs = []string{"a", "b", "c", "d", "e", "f", "g"}
			}
			g := c01Gen{minInst: 9, maxInst: 30, maxTokens: 16, pAlphabet: 0, zones: zs,
				states: []ring.InstanceState{ring.ACTIVE, ring.ACTIVE, ring.JOINING, ring.PENDING, ring.LEAVING}, tokenless: false, pUnsorted: 3}
			if r.chance(1, 3) {
				g.states = []ring.InstanceState{ring.JOINING, ring.PENDING, ring.ACTIVE} // long extended sets
			}
			b := c01Build(cfg, c01GenDesc(r, g))
			for j := 0; j < 25; j++ {
				k := r.u32()
				if r.chance(1, 3) && len(b.toks) > 0 {
					k = pick(r, b.toks) - uint32(r.intn(2))
				}
				b.lookup(e, k, c01RandOp(r), "get", r.intn(7))
			}
		}
	}
	// ---- zone-aware rings with read-only instances that own tokens, next to instances in extending
	//      states: read-only is a shuffle-shard concept, a plain lookup must walk them like any other ----
	{
		r := newRng(e.seed, 106)
		for c := 0; c < 120*e.scale; c++ {
			cfg := c01Cfg{rf: 2 + r.intn(2), za: r.chance(7, 8), timeout: 60}
			zs := []string{"a", "b", "c"}
			if r.chance(1, 4) {
				zs = []string{"a", "b"}
			}
			g := c01Gen{minInst: 3, maxInst: 7, maxTokens: 2, pAlphabet: 1, zones: zs, pReadOnly: 3, pUnsorted: 2,
				states: []ring.InstanceState{ring.ACTIVE, ring.ACTIVE, ring.ACTIVE, ring.LEAVING, ring.JOINING, ring.PENDING}}
			d := c01GenDesc(r, g)
			if r.chance(1, 3) { // a whole zone read-only
				z := pick(r, zs)
				for id, in := range d.Ingesters {
					if in.Zone == z {
						in.ReadOnly = true
						d.Ingesters[id] = in
					}
				}
			}
			for id, in := range d.Ingesters { // keep quorums reachable
				if in.Timestamp < -2 {
					in.Timestamp = 0
					d.Ingesters[id] = in
				}
			}
			b := c01Build(cfg, d)
			keys := c01Keys(r, b.rel, 2)
			for _, k := range keys {
				if len(keys) > 12 && !r.chance(12, len(keys)) {
					continue
				}
				b.lookup(e, k, pick(r, []ring.Operation{ring.Write, ring.Read, ring.Write, ring.Read, ring.WriteNoExtend, ring.Reporting}), "get", r.intn(7))
			}
		}
	}
	// ---- heartbeat ages at the timeout boundary, at sub-second resolution. time.Now() inside Filter
	//      cannot be injected, so the ring is built and looked up inside ONE wall-clock second whose
	//      sub-second part is non-zero: a heartbeat of floor(now)-timeout then has an age in
	//      (timeout, timeout+1s) -> unhealthy, one of floor(now)-timeout+1 an age in (timeout-1s, timeout)
	//      -> healthy. Timestamps and timeouts are whole seconds, so "age <= timeout" is exactly
	//      "ceil(now) - ts <= timeout": the line carries now = 1 (= ceil) and ts relative to floor(now).
	//      If the second rolls over before all lookups of a ring are done, the ring is redone.
	{
		r := newRng(e.seed, 107)
		for c := 0; c < 100*e.scale; c++ {
			cfg := c01Cfg{rf: 1 + r.intn(3), za: r.chance(1, 3), timeout: pick(r, []int{60, 60, 1, 5, 3600})}
			g := c01Gen{minInst: 1, maxInst: 5, maxTokens: 2, pAlphabet: 1, zones: []string{"a", "b", "c"},
				states: []ring.InstanceState{ring.ACTIVE, ring.ACTIVE, ring.ACTIVE, ring.ACTIVE, ring.LEAVING, ring.PENDING}}
			d := c01GenDesc(r, g)
			to := int64(cfg.timeout)
			for id, in := range d.Ingesters {
				in.Timestamp = pick(r, []int64{-to, -to, -to + 1, -to - 1, 0, 0, -to + 1})
				d.Ingesters[id] = in
			}
			if cfg.rf > len(d.Ingesters) {
				cfg.rf = len(d.Ingesters)
			}
			keys := c01Keys(r, d, 1)
			type lk struct {
				k   uint32
				op  ring.Operation
				buf int
			}
			var lks []lk
			for _, k := range keys {
				if len(keys) > 8 && !r.chance(8, len(keys)) {
					continue
				}
				lks = append(lks, lk{k, pick(r, c01Ops), r.intn(7)})
			}
			for attempt := 0; ; attempt++ {
				for ns := time.Now().Nanosecond(); ns < 2e6 || ns > 8e8; ns = time.Now().Nanosecond() {
					time.Sleep(5 * time.Millisecond)
				}
				var buf bytes.Buffer
				tmp := &env{seed: e.seed, tier: e.tier, quick: e.quick, scale: e.scale, w: bufio.NewWriter(&buf)}
				b := c01Build(cfg, d)
				b.now = "1"
				for _, l := range lks {
					b.lookup(tmp, l.k, l.op, "get", l.buf)
				}
				tmp.w.Flush()
				if time.Now().Unix() == b.nowSec {
					e.mu.Lock()
					e.w.Write(buf.Bytes())
					e.mu.Unlock()
					break
				}
				if attempt > 20 { // the machine keeps stalling across second boundaries: drop the ring rather than emit a racy observation
					break
				}
			}
		}
	}
}
