package main

import (
	"sort"
	"strconv"
	"strings"
	"time"

	"github.com/grafana/dskit/ring"
)

// Extension streams of C03 (called at the end of runC03):
//   C03.merge  (c03FieldTies)  every InstanceDesc field under every timestamp/tombstone tie combination
//   C03.tomb   Desc.RemoveTombstones(limit): result, (total, removed), second application, larger limit
//   C03.clone  Desc.Clone / MergeContent: clone content, merge into the clone vs into the original,
//              original untouched by merging into / mutating the clone

// c03Payload: two payloads that differ in EVERY field the last-writer-wins register carries.
func c03Payload(p int, ts int64, st ring.InstanceState) ring.InstanceDesc {
	i := ring.InstanceDesc{Id: "i0", Timestamp: ts, State: st}
	if p == 0 {
		i.Addr, i.Zone, i.RegisteredTimestamp, i.ReadOnly, i.ReadOnlyUpdatedTimestamp = "a0", "z0", 5, false, 0
		i.Versions = map[uint64]uint64{1: 1}
		i.Tokens = []uint32{1, 2}
	} else {
		i.Addr, i.Zone, i.RegisteredTimestamp, i.ReadOnly, i.ReadOnlyUpdatedTimestamp = "a1", "", 7, true, 3
		i.Versions = map[uint64]uint64{1: 2, 9: 4}
		i.Tokens = []uint32{2, 3}
	}
	if st == ring.LEFT {
		i.Tokens = nil
	}
	return i
}

// c03FieldTies: one id, receiver and incoming entry each absent or (ts 1..2) x (ACTIVE, LEAVING, LEFT) x
// (payload 0/1): 13 x 13 single merges, incl. equal ts & both LEFT, equal ts & one LEFT, equal ts & same
// state with DIFFERENT payloads (incoherent: the receiver's content stays), with and without local CAS.
// Judged by the per-merge judge of C03.merge on the whole entry (all ten fields).
func c03FieldTies(e *env) {
	var opts []*ring.Desc
	opts = append(opts, ring.NewDesc())
	for ts := int64(1); ts <= 2; ts++ {
		for _, st := range []ring.InstanceState{ring.ACTIVE, ring.LEAVING, ring.LEFT} {
			for p := 0; p < 2; p++ {
				d := ring.NewDesc()
				d.Ingesters["i0"] = c03Payload(p, ts, st)
				opts = append(opts, d)
			}
		}
	}
	for _, a := range opts {
		for _, b := range opts {
			c03EmitMerge(e, a, b, false, 0)
			c03EmitMerge(e, a, b, true, 2)
		}
	}
}

func c03Limit(zero bool, sec int64, nsec int64) time.Time {
	if zero {
		return time.Time{}
	}
	return time.Unix(sec, nsec)
}

func c03Tomb(d *ring.Desc, zero bool, sec, nsec int64) (*ring.Desc, int, int) {
	c := cloneDesc(d)
	total, removed := c.RemoveTombstones(c03Limit(zero, sec, nsec))
	return c, total, removed
}

func c03EmitTomb(e *env, d *ring.Desc, zero bool, sec, nsec int64, sec2, nsec2 int64) {
	out, total, removed := c03Tomb(d, zero, sec, nsec)
	out2, total2, removed2 := c03Tomb(out, zero, sec, nsec)
	// a later (not earlier) limit applied after the first one, and directly
	after, _, _ := c03Tomb(out, false, sec2, nsec2)
	direct, _, _ := c03Tomb(d, false, sec2, nsec2)
	z := "0"
	if zero {
		z = "1"
	}
	e.emit("C03.tomb", z, strconv.FormatInt(sec, 10), strconv.FormatInt(nsec, 10), encDesc(d),
		encDesc(out), strconv.Itoa(total), strconv.Itoa(removed),
		encDesc(out2), strconv.Itoa(total2), strconv.Itoa(removed2),
		strconv.FormatInt(sec2, 10), strconv.FormatInt(nsec2, 10), encDesc(after), encDesc(direct))
}

var c03Nsecs = []int64{0, 1, 999999999}

func c03TombStream(e *env, r *rng, uni []*ring.Desc) {
	// exhaustive: the 49 descriptors of the 2-id universe x (zero limit, sec 0..4 x nsec {0,1,999999999})
	for _, d := range uni {
		c03EmitTomb(e, d, true, 0, 0, 2, 0)
		for sec := int64(0); sec <= 4; sec++ {
			for _, ns := range c03Nsecs {
				c03EmitTomb(e, d, false, sec, ns, sec+int64(r.intn(2)), pick(r, []int64{ns, 999999999}))
			}
		}
	}
	// random: larger descriptors, all states, timestamps around the limit
	for i := 0; i < 3000*e.scale; i++ {
		var d *ring.Desc
		if r.chance(1, 2) {
			u := &c03RandU{r: r, content: map[string]ring.InstanceDesc{}, nIDs: 2 + r.intn(6)}
			d = u.desc()
		} else {
			d = c03Wild(r, 1+r.intn(5))
		}
		sec := int64(r.intn(6))
		ns := pick(r, c03Nsecs)
		sec2, ns2 := sec+int64(r.intn(3)), ns
		if sec2 == sec {
			ns2 = pick(r, []int64{ns, 999999999})
		}
		c03EmitTomb(e, d, r.chance(1, 8), sec, ns, sec2, ns2)
	}
}

func c03EmitClone(e *env, a, b *ring.Desc, cas bool, now int64) {
	orig := cloneDesc(a)
	cl := orig.Clone().(*ring.Desc)
	clEnc := encDesc(cl)
	content := append([]string(nil), orig.MergeContent()...)
	sort.Strings(content)
	// merge into the clone (which shares token storage with orig) vs into an independent deep copy
	chC, err := cl.VerifMergeWithTime(cloneDesc(b), cas, time.Unix(now, 0))
	if err != nil {
		panic(err)
	}
	var chCd *ring.Desc
	if chC != nil {
		chCd = chC.(*ring.Desc)
	}
	stC, chCs := encDesc(cl), encChange(chCd)
	stO, chO := implMerge(a, b, cas, now)
	origAfterMerge := encDesc(orig)
	// the clone's map is its own: adding, replacing and deleting entries does not reach the original
	for k := range cl.Ingesters {
		delete(cl.Ingesters, k)
	}
	cl.Ingesters["zz"] = ring.InstanceDesc{Id: "zz", Timestamp: 9}
	for k := range orig.Ingesters {
		cl.Ingesters[k] = ring.InstanceDesc{Id: k, Timestamp: 99}
	}
	c := "0"
	if cas {
		c = "1"
	}
	cs := "-"
	if len(content) > 0 {
		cs = strings.Join(content, ",")
	}
	e.emit("C03.clone", c, strconv.FormatInt(now, 10), encDesc(a), encDesc(b),
		clEnc, cs, encDesc(stO), encChange(chO), stC, chCs, origAfterMerge, encDesc(orig))
}

func c03CloneStream(e *env, r *rng, uni []*ring.Desc) {
	for _, a := range uni {
		for _, b := range uni {
			c03EmitClone(e, a, b, false, 0)
		}
	}
	for i := 0; i < 2000*e.scale; i++ {
		if r.chance(1, 2) {
			u := &c03RandU{r: r, content: map[string]ring.InstanceDesc{}, nIDs: 2 + r.intn(6)}
			c03EmitClone(e, u.desc(), u.desc(), false, 0)
		} else {
			n := 1 + r.intn(4)
			c03EmitClone(e, c03Receiver(r, n), c03Wild(r, n), r.chance(1, 3), int64(2+r.intn(4)))
		}
	}
}

func runC03X(e *env) {
	r := newRng(e.seed, 33)
	uni := c03Universe(2)
	c03FieldTies(e)
	c03TombStream(e, r, uni)
	c03CloneStream(e, r, uni)
}
