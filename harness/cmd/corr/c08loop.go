package main

// C08 LOOP stream: the REAL services (Lifecycler.loop/stopping, BasicLifecycler.starting/running/stopping) of 1-2
// lifecyclers run with small timers (JoinAfter / ObservePeriod 15 ms, HeartbeatPeriod 20 ms) on the in-memory consul
// store; the driver starts them, sends requests through the actor channel (ChangeState, ChangeReadOnlyState,
// ClaimTokensFor) and stops them. Every CAS callback invocation of every lifecycler is recorded in commit order (the
// recorder serialises the CAS calls, so there are no conflicts and no retries) together with markers for the driver's
// calls. The oracle replays the trace through the loop model `C08.loopNext` (acceptance: every recorded CAS must be
// explained by an enabled loop event of its writer whose handler produces exactly that write) and judges the writes.
//
// Line: C08.loop <case> <cfgs> <unregister flags> <initial store> <trace>
// trace items: M!i!start | M!i!req!cs!A | M!i!req!ro!1 | M!i!req!claim!i1 | M!i!stop | M!i!term!<state>/<tokens> |
//              C!i!<now>!<gen>!<in>><out>       (times are seconds relative to the start of the case + 1000)

import (
	"context"
	"strconv"
	"strings"
	"sync"
	"sync/atomic"
	"time"

	"github.com/go-kit/log"

	"github.com/grafana/dskit/kv/consul"
	"github.com/grafana/dskit/ring"
	"github.com/grafana/dskit/services"
)

type loopWorld struct {
	mu      sync.Mutex
	inner   *consul.Client
	base    int64 // real second that is shown as 1000
	tracked string
	trace   []string
	bad     bool
}

func (w *loopWorld) enc(v interface{}) string {
	if v == nil {
		return "nil"
	}
	d := cloneDesc(v.(*ring.Desc))
	for id, i := range d.Ingesters {
		ring.VerifShiftInstance(&i, time.Duration(w.base)*time.Second)
		d.Ingesters[id] = i
	}
	return encDesc(d)
}

type loopRec struct {
	w    *loopWorld
	idx  int
	id   string
	gen  *tokGen
	seen int // CAS calls recorded (guarded by w.mu)
	// CAS calls of this lifecycler in flight. BasicLifecycler.stopping heartbeats while the stopping delegate changes the
	// state in a goroutine of its own; each of the two assigns the remembered entry AFTER its CAS returned, in an order the
	// recorder cannot see (the remembered entry may be the older of the two until the next update). Such a case is re-run.
	inflight int32
}

func (r *loopRec) List(ctx context.Context, p string) ([]string, error) {
	return r.w.inner.List(ctx, p)
}
func (r *loopRec) Get(ctx context.Context, k string) (interface{}, error) {
	return r.w.inner.Get(ctx, k)
}
func (r *loopRec) Delete(ctx context.Context, k string) error { return r.w.inner.Delete(ctx, k) }
func (r *loopRec) WatchKey(ctx context.Context, k string, f func(interface{}) bool) {
	r.w.inner.WatchKey(ctx, k, f)
}
func (r *loopRec) WatchPrefix(ctx context.Context, p string, f func(string, interface{}) bool) {
	r.w.inner.WatchPrefix(ctx, p, f)
}

func (r *loopRec) CAS(ctx context.Context, key string, f func(in interface{}) (out interface{}, retry bool, err error)) error {
	w := r.w
	overlap := atomic.AddInt32(&r.inflight, 1) > 1
	defer atomic.AddInt32(&r.inflight, -1)
	w.mu.Lock() // one CAS at a time: commit order = trace order, no conflicts
	defer w.mu.Unlock()
	if overlap {
		w.bad = true
	}
	calls := 0
	var item string
	var newTracked string
	err := w.inner.CAS(ctx, key, func(in interface{}) (interface{}, bool, error) {
		calls++
		r.gen.calls = r.gen.calls[:0]
		t0 := time.Now().Unix()
		inEnc := w.enc(in)
		prevRO, prevFlag := int64(0), false
		if in != nil {
			if pi, ok := in.(*ring.Desc).Ingesters[r.id]; ok {
				prevRO, prevFlag = pi.ReadOnlyUpdatedTimestamp, pi.ReadOnly
			}
		}
		out, retry, err := f(in)
		if time.Now().Unix() != t0 {
			w.bad = true // a second boundary inside the callback: `now` is ambiguous
		}
		o := "nil"
		now := t0 - w.base
		newTracked = ""
		if err != nil {
			o = "err"
		} else if out != nil {
			e := w.enc(out)
			o = "W" + e
			newTracked = e
			if i, ok := out.(*ring.Desc).Ingesters[r.id]; ok {
				// ChangeReadOnlyState takes its time.Now() before the CAS starts: a changed read-only timestamp that is
				// not the heartbeat second means a second boundary in between (`now` would be ambiguous): retry the case
				if (i.ReadOnlyUpdatedTimestamp != prevRO || i.ReadOnly != prevFlag) && i.ReadOnlyUpdatedTimestamp != 0 && i.ReadOnlyUpdatedTimestamp != i.Timestamp {
					w.bad = true
				}
			}
		}
		g := "-"
		if len(r.gen.calls) == 1 {
			g = r.gen.calls[0]
		} else if len(r.gen.calls) > 1 {
			w.bad = true
		}
		if inEnc == w.tracked {
			inEnc = "="
		}
		item = strings.Join([]string{"C", itoa(r.idx), strconv.FormatInt(now, 10), g, inEnc + ">" + o}, "!")
		return out, retry, err
	})
	if calls > 1 {
		w.bad = true
	}
	if calls >= 1 {
		r.seen++
		w.trace = append(w.trace, item)
		if err == nil && newTracked != "" {
			w.tracked = newTracked
		}
	}
	return err
}

func (w *loopWorld) mark(parts ...string) {
	w.mu.Lock()
	w.trace = append(w.trace, strings.Join(parts, "!"))
	w.mu.Unlock()
}

type loopNode struct {
	cfg lcfg
	rec *loopRec
	lc  *ring.Lifecycler
	blc *ring.BasicLifecycler
	up  bool
}

func (n *loopNode) svc() services.Service {
	if n.lc != nil {
		return n.lc
	}
	return n.blc
}

func (n *loopNode) build(w *loopWorld, r *rng) {
	c := n.cfg
	n.rec.gen = &tokGen{r: newRng(r.u64(), 9), space: 64}
	lg := log.NewNopLogger()
	if c.kind == 'L' {
		var cfg ring.LifecyclerConfig
		cfg.RingConfig.KVStore.Mock = n.rec
		cfg.RingConfig.HeartbeatTimeout = time.Minute
		cfg.NumTokens = c.numTokens
		cfg.HeartbeatPeriod = 20 * time.Millisecond
		cfg.HeartbeatTimeout = time.Minute
		cfg.JoinAfter = 15 * time.Millisecond
		if c.observe {
			cfg.ObservePeriod = 15 * time.Millisecond
		}
		cfg.Zone = c.zone
		cfg.UnregisterOnShutdown = c.unregister
		host, port, _ := strings.Cut(c.addr, ":")
		p, _ := strconv.Atoi(port)
		cfg.Addr, cfg.Port, cfg.ID = host, p, c.id
		cfg.RingTokenGenerator = n.rec.gen
		lc, err := ring.NewLifecycler(cfg, nil, "loop", c08Key, false, lg, nil)
		if err != nil {
			panic(err)
		}
		n.lc, n.blc = lc, nil
	} else {
		bcfg := ring.BasicLifecyclerConfig{ID: c.id, Addr: c.addr, Zone: c.zone, HeartbeatPeriod: 20 * time.Millisecond,
			HeartbeatTimeout: time.Minute, NumTokens: c.numTokens, KeepInstanceInTheRingOnShutdown: !c.unregister, RingTokenGenerator: n.rec.gen}
		if c.observe {
			bcfg.TokensObservePeriod = 15 * time.Millisecond
		}
		var d ring.BasicLifecyclerDelegate = ring.NewInstanceRegisterDelegate(c.registerState, c.numTokens)
		d = ring.NewLeaveOnStoppingDelegate(d, lg)
		if c.forget > 0 {
			d = ring.NewAutoForgetDelegate(time.Duration(c.forget)*time.Second, d, lg)
		}
		b, err := ring.NewBasicLifecycler(bcfg, "loop", c08Key, n.rec, d, lg, nil)
		if err != nil {
			panic(err)
		}
		n.blc, n.lc = b, nil
	}
}

func (n *loopNode) final() string {
	if n.lc != nil {
		st, toks, _, _, _, _, _ := n.lc.VerifLocal()
		return stateCode[st] + "/" + u32s(toks)
	}
	c := n.blc.VerifCurrent()
	if c == nil {
		return "-/-"
	}
	return stateCode[c.State] + "/" + u32s(c.Tokens)
}

func c08LoopCase(seed uint64, caseNo int, _ string) (string, bool) {
	r := newRng(seed, uint64(400000+caseNo))
	inner, closer := consul.NewInMemoryClient(ring.GetCodec(), log.NewNopLogger(), nil)
	defer closer.Close()
	w := &loopWorld{inner: inner, tracked: "nil"}
	w.base = time.Now().Unix() - 1000
	ctx := context.Background()
	nn := 1 + r.intn(2)
	var nodes []*loopNode
	var ce, ue []string
	preseed := false
	for k := 0; k < nn; k++ {
		c := lcfg{kind: pick(r, []byte{'L', 'L', 'B'}), id: "i" + itoa(k), addr: "a" + itoa(k) + ":1", zone: pick(r, []string{"", "z1"}),
			numTokens: 1 + r.intn(3), observe: r.chance(1, 2), hbTimeout: 61, readinessRing: true,
			registerState: pick(r, []ring.InstanceState{ring.ACTIVE, ring.JOINING}), unregister: r.chance(1, 2)}
		if c.kind == 'B' && r.chance(1, 3) {
			c.forget = 201
		}
		// RESTART ON A LEFT-BEHIND ENTRY: the store already holds the first lifecycler's entry (what an abrupt exit leaves),
		// mostly ACTIVE, with FEWER tokens than NumTokens (num_tokens raised between the runs), observe period mostly on:
		// the join timer's guard (`if i.GetState() == PENDING`, glue of Lifecycler.loop) decides what happens next.
		if k == 0 && c.kind == 'L' && r.chance(1, 3) {
			preseed = true
			c.numTokens = 2 + r.intn(2)
			c.observe = r.chance(3, 4)
		}
		n := &loopNode{cfg: c}
		n.rec = &loopRec{w: w, idx: k, id: c.id}
		nodes = append(nodes, n)
		ce = append(ce, c.enc())
		ue = append(ue, b01(c.unregister))
	}
	init0 := "nil"
	if preseed {
		c := nodes[0].cfg
		st := pick(r, []ring.InstanceState{ring.ACTIVE, ring.ACTIVE, ring.ACTIVE, ring.ACTIVE, ring.LEAVING, ring.PENDING, ring.JOINING})
		nt := r.intn(c.numTokens)
		var toks []uint32
		for t := uint32(1 + r.intn(8)); len(toks) < nt; t += uint32(1 + r.intn(8)) {
			toks = append(toks, t)
		}
		old := time.Now().Unix() - int64(2+r.intn(5))
		inst := ring.InstanceDesc{Id: c.id, Addr: pick(r, []string{c.addr, c.addr, "old:9"}), Zone: c.zone, State: st, Tokens: toks,
			Timestamp: old, RegisteredTimestamp: old - int64(r.intn(50))}
		d := ring.NewDesc()
		d.Ingesters[c.id] = inst
		if err := inner.CAS(ctx, c08Key, func(interface{}) (interface{}, bool, error) { return d, false, nil }); err != nil {
			panic(err)
		}
		cur, _ := inner.Get(ctx, c08Key)
		init0 = w.enc(cur)
		w.tracked = init0
	}
	nap := func(lo, hi int) { time.Sleep(time.Duration(lo+r.intn(hi-lo+1)) * time.Millisecond) }
	start := func(k int) {
		n := nodes[k]
		n.build(w, r)
		w.mark("M", itoa(k), "start")
		w.mu.Lock()
		n.rec.seen = 0
		w.mu.Unlock()
		if err := n.svc().StartAsync(ctx); err != nil {
			panic(err)
		}
		// the loop has begun (initRing / registerInstance recorded) before the driver does anything else with it
		for t := 0; t < 10000; t++ {
			w.mu.Lock()
			seen := n.rec.seen
			w.mu.Unlock()
			if seen > 0 {
				break
			}
			time.Sleep(500 * time.Microsecond)
		}
		n.up = true
	}
	stop := func(k int) {
		n := nodes[k]
		// requests are only accepted by a Running service; wait for a BasicLifecycler still in Starting
		if n.blc != nil {
			_ = n.blc.AwaitRunning(ctx)
		}
		w.mark("M", itoa(k), "stop")
		_ = services.StopAndAwaitTerminated(ctx, n.svc())
		w.mark("M", itoa(k), "term", n.final())
		n.up = false
	}
	for k := range nodes {
		start(k)
		nap(0, 25)
	}
	nsteps := 2 + r.intn(5)
	for s := 0; s < nsteps; s++ {
		nap(5, 45)
		k := r.intn(nn)
		n := nodes[k]
		if !n.up {
			if r.chance(1, 2) {
				start(k)
			}
			continue
		}
		running := n.svc().State() == services.Running
		switch x := r.intn(10); {
		case x < 3 && running:
			st := pick(r, []ring.InstanceState{ring.ACTIVE, ring.ACTIVE, ring.LEAVING, ring.PENDING, ring.JOINING})
			w.mark("M", itoa(k), "req", "cs", stateCode[st])
			if n.lc != nil {
				_ = n.lc.ChangeState(ctx, st)
			} else {
				_ = n.blc.ChangeState(ctx, st)
			}
		case x < 5 && running:
			ro := r.chance(1, 2)
			w.mark("M", itoa(k), "req", "ro", b01(ro))
			if n.lc != nil {
				_ = n.lc.ChangeReadOnlyState(ctx, ro)
			} else {
				_ = n.blc.ChangeReadOnlyState(ctx, ro)
			}
		case x < 6 && running && n.lc != nil && nn > 1:
			other := nodes[1-k]
			cur, _ := inner.Get(ctx, c08Key)
			if d, ok := cur.(*ring.Desc); ok && d != nil {
				_, selfIn := d.Ingesters[n.cfg.id]
				if o, ok := d.Ingesters[other.cfg.id]; ok && selfIn && o.State == ring.LEAVING {
					w.mark("M", itoa(k), "req", "claim", other.cfg.id)
					_ = n.lc.ClaimTokensFor(ctx, other.cfg.id)
				}
			}
		case x < 8:
			stop(k)
		}
	}
	nap(20, 60)
	for k, n := range nodes {
		if n.up {
			stop(k)
		}
	}
	if w.bad {
		return "", false
	}
	return strings.Join([]string{"C08.loop", "loop/k" + itoa(caseNo), strings.Join(ce, ";"), strings.Join(ue, ";"), init0, strings.Join(w.trace, " ")}, "\t"), true
}

// loopStart runs the loop cases in the background (they mostly sleep), returns a function that waits for the lines.
func loopStart(seed uint64, n int) func() []string {
	lines := make([]string, n)
	var wg sync.WaitGroup
	sem := make(chan struct{}, 48)
	for i := 0; i < n; i++ {
		wg.Add(1)
		go func(i int) {
			defer wg.Done()
			sem <- struct{}{}
			defer func() { <-sem }()
			for try := 0; try < 4; try++ {
				if l, ok := c08LoopCase(seed, i, ""); ok {
					lines[i] = l
					return
				}
			}
		}(i)
	}
	return func() []string { wg.Wait(); return lines }
}
