package main

import (
	"context"
	"errors"
	"fmt"
	"net/http"
	"net/http/httptest"
	"os"
	"reflect"
	"strings"

	"google.golang.org/grpc"
	"google.golang.org/grpc/metadata"

	"github.com/grafana/dskit/middleware"
	"github.com/grafana/dskit/tenant"
	"github.com/grafana/dskit/user"
)

func init() {
	register("C20", runC20)
	register("C20.tables", c20Tables)
}

func c20ErrClass(err error) string {
	switch {
	case err == nil:
		return "ok"
	case errors.Is(err, user.ErrNoOrgID):
		return "noOrgID"
	case errors.Is(err, user.ErrTooManyOrgIDs):
		return "tooMany"
	case errors.Is(err, user.ErrDifferentOrgIDPresent):
		return "differentOrg"
	}
	tn := reflect.TypeOf(err).String()
	msg := err.Error()
	switch {
	case strings.Contains(tn, "errTenantIDUnsupportedCharacter"):
		return "badChar"
	case strings.Contains(tn, "errMetadataUnsupportedCharacter"):
		return "metaBadChar"
	case strings.Contains(tn, "errMalformedMetadata"):
		return "metaMalformed"
	case strings.HasPrefix(msg, "tenant ID is too long"):
		return "tooLong"
	case strings.HasPrefix(msg, "tenant ID is '.' or '..'"):
		return "unsafeID"
	case strings.HasPrefix(msg, "metadata too long"):
		return "metaTooLong"
	}
	return "other(" + tn + ")"
}

func c20Id(e *env, s string) {
	ctx := user.InjectOrgID(context.Background(), s)
	var tid, tids, pwm, vld string
	if t, err := tenant.TenantID(ctx); err != nil {
		tid = "err:" + c20ErrClass(err)
	} else {
		tid = "ok:" + hx(t)
	}
	if ts, err := tenant.TenantIDs(ctx); err != nil {
		tids = "err:" + c20ErrClass(err)
	} else {
		tids = "ok:" + hxs(ts)
	}
	if t, m, err := tenant.ExtractWithMetadata(ctx); err != nil {
		pwm = "err:" + c20ErrClass(err)
	} else {
		pwm = "ok:" + hx(t) + "/" + hx(m.Encode())
	}
	if err := tenant.ValidTenantID(s); err != nil {
		vld = "err:" + c20ErrClass(err)
	} else {
		vld = "ok:"
	}
	e.emit("C20.id", hx(s), tid, tids, pwm, vld)
}

// c20NoId: the resolvers on a context that carries no organisation identifier at all.
func c20NoId(e *env) {
	ctx := context.Background()
	var tid, tids, pwm string
	if t, err := tenant.TenantID(ctx); err != nil {
		tid = "err:" + c20ErrClass(err)
	} else {
		tid = "ok:" + hx(t)
	}
	if ts, err := tenant.TenantIDs(ctx); err != nil {
		tids = "err:" + c20ErrClass(err)
	} else {
		tids = "ok:" + hxs(ts)
	}
	if t, m, err := tenant.ExtractWithMetadata(ctx); err != nil {
		pwm = "err:" + c20ErrClass(err)
	} else {
		pwm = "ok:" + hx(t) + "/" + hx(m.Encode())
	}
	e.emit("C20.noid", "-", "-", tid, tids, pwm)
}

var c20Alphabet = []byte{'a', 'Z', '0', '.', '|', ':', '/', 0, 0xFF, '=', '-'}

func c20RandString(r *rng) string {
	// structured: 0..5 parts, each tenant (+ optional metadata), mostly valid
	nparts := r.intn(6)
	if nparts == 0 {
		nparts = 1
	}
	pool := []string{"a", "b", "tenant-1", "A.b", "..", ".", "", "x_y", "t!", "(z)", "a*'", strings.Repeat("q", 150), strings.Repeat("q", 151)}
	var parts []string
	base := pick(r, pool)
	for i := 0; i < nparts; i++ {
		t := base
		if r.chance(1, 3) {
			t = pick(r, pool)
		}
		if r.chance(1, 12) { // random bytes
			n := r.intn(6)
			b := make([]byte, n)
			for j := range b {
				if r.chance(1, 2) {
					b[j] = pick(r, c20Alphabet)
				} else {
					b[j] = byte(r.intn(256))
				}
			}
			t = string(b)
		}
		if r.chance(1, 3) {
			metas := []string{":a=b", ":a=b:c=d", ":c=d:a=b", ":a=b:a=c", ":", "::", ":a", ":=", ":a=", ":k=" + strings.Repeat("v", 61), ":k=" + strings.Repeat("v", 62), ":a=b c", ":A-_=9", ":a=b=c"}
			t += pick(r, metas)
		}
		parts = append(parts, t)
	}
	s := strings.Join(parts, "|")
	if r.chance(1, 20) { // mutate one byte
		b := []byte(s)
		if len(b) > 0 {
			b[r.intn(len(b))] = pick(r, c20Alphabet)
			s = string(b)
		}
	}
	return s
}

type c20Hop struct {
	kind     byte     // 'h' or 'g'
	existing []string // pre-existing header value(s); nil = absent
	via      int      // which real entry point performs the hop
	stale    string   // non-empty: the receiving side's context already holds this identifier
}

func (h c20Hop) String() string {
	if h.stale != "" {
		g := h
		g.stale = ""
		return g.String() + "!" + hx(h.stale)
	}
	if h.kind == 'h' {
		if h.existing == nil {
			return "h:none"
		}
		return "h:" + hxs(h.existing) // all values of the pre-existing header; "-" = an empty value
	}
	if h.existing == nil {
		return "g:none"
	}
	if len(h.existing) == 0 {
		return "g:empty"
	}
	return "g:" + hxs(h.existing)
}

// c20RunHop performs one hop with the real code. ok=false => returns the error.
func c20RunHop(ctx context.Context, h c20Hop) (context.Context, error) {
	if h.kind == 'h' {
		req := httptest.NewRequest("GET", "http://example/", nil)
		if h.existing != nil {
			// the header as some earlier handler / proxy left it: possibly present with an empty value
			// (out.Header.Set(name, in.Header.Get(name)) for an unauthenticated request) or multi-valued
			req.Header[http.CanonicalHeaderKey(user.OrgIDHeaderName)] = append([]string{}, h.existing...)
		}
		if err := user.InjectOrgIDIntoHTTPRequest(ctx, req); err != nil {
			return nil, err
		}
		// the "wire": a new request carrying only the headers
		req2 := httptest.NewRequest("GET", "http://example/", nil)
		req2.Header = req.Header.Clone()
		if h.stale != "" {
			req2 = req2.WithContext(user.InjectOrgID(req2.Context(), h.stale))
		}
		switch h.via % 3 {
		case 0:
			_, c, err := user.ExtractOrgIDFromHTTPRequest(req2)
			return c, err
		case 1:
			_, c, err := tenant.ExtractTenantIDFromHTTPRequest(req2)
			if err != nil && !errors.Is(err, user.ErrNoOrgID) {
				// tenant validation is stricter than transport; fall back to the plain extractor
				_, c, err = user.ExtractOrgIDFromHTTPRequest(req2)
			}
			return c, err
		default:
			var got context.Context
			rec := httptest.NewRecorder()
			middleware.AuthenticateUser.Wrap(http.HandlerFunc(func(_ http.ResponseWriter, r *http.Request) { got = r.Context() })).ServeHTTP(rec, req2)
			if got == nil {
				if rec.Code == http.StatusUnauthorized && strings.TrimSpace(rec.Body.String()) == user.ErrNoOrgID.Error() {
					return nil, user.ErrNoOrgID
				}
				return nil, fmt.Errorf("middleware rejected: %d %s", rec.Code, rec.Body.String())
			}
			return got, nil
		}
	}
	// gRPC
	base := ctx
	if h.existing != nil {
		base = metadata.NewOutgoingContext(ctx, metadata.MD{"x-scope-orgid": append([]string{}, h.existing...)})
	}
	var out context.Context
	var err error
	if h.via%2 == 0 {
		out, err = user.InjectIntoGRPCRequest(base)
	} else {
		err = middleware.ClientUserHeaderInterceptor(base, "/m", nil, nil, nil, func(c context.Context, _ string, _, _ interface{}, _ *grpc.ClientConn, _ ...grpc.CallOption) error {
			out = c
			return nil
		})
	}
	if err != nil {
		return nil, err
	}
	md, _ := metadata.FromOutgoingContext(out)
	// the "wire": incoming context on the server has only the metadata
	recv := context.Background()
	if h.stale != "" {
		recv = user.InjectOrgID(recv, h.stale)
	}
	in := metadata.NewIncomingContext(recv, md.Copy())
	if h.via%4 < 2 {
		_, c, err := user.ExtractFromGRPCRequest(in)
		return c, err
	}
	var got context.Context
	_, err = middleware.ServerUserHeaderInterceptor(in, nil, nil, func(c context.Context, _ interface{}) (interface{}, error) { got = c; return nil, nil })
	return got, err
}

func c20Chain(e *env, id *string, hops []c20Hop) {
	ctx := context.Background()
	ids := "none"
	if id != nil {
		ctx = user.InjectOrgID(ctx, *id)
		ids = hx(*id)
	}
	obs := ""
	for i, h := range hops {
		c, err := c20RunHop(ctx, h)
		if err != nil {
			obs = fmt.Sprintf("err:%s@%d", c20ErrClass(err), i)
			break
		}
		ctx = c
	}
	if obs == "" {
		if v, err := user.ExtractOrgID(ctx); err != nil {
			obs = "ok:none"
		} else {
			obs = "ok:" + hx(v)
		}
	}
	hs := make([]string, len(hops))
	for i, h := range hops {
		hs[i] = h.String()
	}
	hopsS := strings.Join(hs, " ")
	if len(hs) == 0 {
		hopsS = "-"
	}
	e.emit("C20.chain", ids, hopsS, obs)
}

func runC20(e *env) {
	c20NoId(e)
	// 1. exhaustive strings of length <= 3 over the 11-symbol alphabet
	var rec func(prefix []byte, depth int)
	rec = func(prefix []byte, depth int) {
		c20Id(e, string(prefix))
		if depth == 0 {
			return
		}
		for _, c := range c20Alphabet {
			rec(append(append([]byte{}, prefix...), c), depth-1)
		}
	}
	depth := 3
	if !e.quick {
		depth = 4
	}
	rec(nil, depth)
	// 2. every single byte, alone and after a valid char (covers the whole table behaviourally)
	for c := 0; c < 256; c++ {
		c20Id(e, string([]byte{byte(c)}))
		c20Id(e, string([]byte{'a', byte(c)}))
		c20Id(e, string([]byte{'a', ':', byte(c), '=', 'v'}))
	}
	// 3. length boundaries
	for _, n := range []int{149, 150, 151, 300} {
		c20Id(e, strings.Repeat("a", n))
		c20Id(e, strings.Repeat("a", n)+":k=v")
		c20Id(e, "b|"+strings.Repeat("a", n))
	}
	// 4. seeded structured / mutated strings
	r := newRng(e.seed, 20)
	for i := 0; i < 6000*e.scale; i++ {
		c20Id(e, c20RandString(r))
	}
	// 5. transport chains
	r2 := newRng(e.seed, 21)
	for i := 0; i < 3000*e.scale; i++ {
		var id *string
		if !r2.chance(1, 10) {
			s := c20RandString(r2)
			if r2.chance(1, 8) {
				s = ""
			}
			id = &s
		}
		n := r2.intn(7)
		hops := make([]c20Hop, n)
		for j := range hops {
			h := c20Hop{kind: 'h', via: r2.intn(12)}
			if r2.chance(1, 2) {
				h.kind = 'g'
			}
			if r2.chance(1, 6) { // pre-existing value on the carrier
				switch r2.intn(4) {
				case 0:
					if id != nil {
						h.existing = []string{*id}
					} else {
						h.existing = []string{"other"}
					}
				case 1:
					h.existing = []string{"other"}
				case 2:
					if h.kind == 'g' {
						h.existing = []string{}
					} else {
						h.existing = []string{""} // header present, value empty
					}
				case 3:
					if h.kind == 'g' && id != nil {
						h.existing = []string{*id, *id}
					} else if h.kind == 'h' {
						// multi-valued header: Get / the receiver see the first value only
						switch r2.intn(4) {
						case 0:
							h.existing = []string{"", "other"}
						case 1:
							if id != nil {
								h.existing = []string{*id, "other"}
							}
						case 2:
							if id != nil {
								h.existing = []string{"", *id}
							}
						default:
							if id != nil {
								h.existing = []string{"other", *id}
							}
						}
					}
				}
			}
			if r2.chance(1, 5) {
				h.stale = pick(r2, []string{"receiver-own-id", "other", "a"})
			}
			hops[j] = h
		}
		c20Chain(e, id, hops)
	}
	runC20X(e)
}

// c20Tables regenerates the character tables and limits from the running code (public API only).
func c20Tables(e *env) {
	w := e.w
	fmt.Fprintln(w, "/-- `validTenantIdChars` as observed through `tenant.ValidTenantID` on \"a\"++[c]. -/")
	fmt.Fprint(w, "def validTenantTable : List Bool := [")
	for c := 0; c < 256; c++ {
		if c > 0 {
			fmt.Fprint(w, ", ")
		}
		fmt.Fprint(w, tenant.ValidTenantID(string([]byte{'a', byte(c)})) == nil)
	}
	fmt.Fprintln(w, "]")
	fmt.Fprintln(w, "/-- `validMetadataChars` as observed through `tenant.ValidMetadata`. -/")
	fmt.Fprint(w, "def validMetaTable : List Bool := [")
	for c := 0; c < 256; c++ {
		if c > 0 {
			fmt.Fprint(w, ", ")
		}
		fmt.Fprint(w, tenant.ValidMetadata(string([]byte{byte(c)})) == nil)
	}
	fmt.Fprintln(w, "]")
	fmt.Fprintf(w, "def maxTenantIDLength : Nat := %d\n", tenant.MaxTenantIDLength)
	fmt.Fprintf(w, "def maxMetadataLength : Nat := %d\n", tenant.MaxMetadataLength)
	_ = os.Stdout
}
