package main

// C13.ihist — the lock sections of Ring.ShuffleShard / ShuffleShardWithLookback driven one by one.
//
// Ring.ShuffleShard is three critical sections of r.mtx: (1) getCachedShuffledSubring (RLock),
// (2) shuffleShard / filterOutReadOnlyInstances (RLock), (3) setCachedShuffledSubring (Lock, guarded by
// lastTopologyChange). The hooks of ring/verif_hooks_c13_sections.go expose each section; this stream
// runs them from ONE goroutine in a seeded order with updateRingState, other readers' sections and
// CleanupShuffleShardCache in between (a reader "paused" between look-up and compute and between
// compute and store, any number of readers), so every interleaving is reproducible from the seed and
// the oracle replays it on the model's transition system (C13.lstep) with the OBSERVED clock readings.
//
//   C13.ihist za n streams steps | long fresh
//
// steps: U!kind!desc  R1!id!size  R2!id!size  R3!n  L1!id!size!period!now  L2!…  L3!n  K!id  P!S!id!size  P!L!id!size!period!now
// long : U → s<k> (k = index of the ring's lastTopologyChange among the distinct readings seen so far),
//        R1/L1 → miss | members, R2/L2 → self#members | sub#members, P → members, else -
// fresh: what a fresh cache-less client built from the latest descriptor answers to the same query
//        (ShuffleShard / ShuffleShardWithLookback), in the same encoding; = long where nothing is handed out.

import (
	"strconv"
	"strings"
	"time"

	"github.com/grafana/dskit/ring"
)

func c13Members(rr ring.ReadRing) string {
	rs, err := rr.GetAllHealthy(c13AllOp)
	if err != nil {
		if err == ring.ErrEmptyRing {
			return "-"
		}
		return "err"
	}
	return c13EncInsts(rs.Instances, false)
}

type c13Pend struct {
	id     string
	size   int
	period int64
	now    int64
	sub    *ring.Ring
}

func c13IHist(e *env, r *rng) {
	za := r.chance(1, 2)
	g := &c12Gen{r: r, used: map[uint32]bool{}}
	nz := 1 + r.intn(3)
	zones := append([]string{}, c12ZoneNames[:nz]...)
	n := 3 + r.intn(5)
	maxTok := 1 + r.intn(3)
	regTs := func() int64 {
		switch r.intn(4) {
		case 0:
			return c13Base - int64(r.intn(120))
		case 1:
			return 0
		default:
			return c13Base - 5000 - int64(r.intn(1000))
		}
	}
	newInst := func() ring.InstanceDesc {
		i := g.newInst(pick(r, zones), maxTok, false, r.chance(1, 30))
		i.Timestamp = c13Base - int64(r.intn(50))
		i.RegisteredTimestamp = regTs()
		if r.chance(1, 6) {
			i.ReadOnly = true
			i.ReadOnlyUpdatedTimestamp = c13Base - int64(r.intn(120))
		}
		return i
	}
	cur := ring.NewDesc()
	for k := 0; k < n; k++ {
		i := newInst()
		cur.Ingesters[i.Id] = i
	}
	mkCfg := func(cacheOff bool) ring.Config {
		return ring.Config{ReplicationFactor: 1, ZoneAwarenessEnabled: za, HeartbeatTimeout: c13Timeout, SubringCacheDisabled: cacheOff}
	}
	long, err := ring.VerifNewRing(mkCfg(false), c13Shallow(cur), nil)
	if err != nil {
		panic(err)
	}
	stamps := []time.Time{{}}
	stampID := func() string {
		t := long.VerifLastTopologyChange()
		for k, s := range stamps {
			if s.Equal(t) {
				return "s" + itoa(k)
			}
		}
		stamps = append(stamps, t)
		return "s" + itoa(len(stamps)-1)
	}
	var steps, longA, freshA []string
	put := func(s, a, b string) {
		steps = append(steps, s)
		longA = append(longA, a)
		freshA = append(freshA, b)
	}
	s0 := stampID()
	put("U!init!"+encDesc(cur), s0, s0)

	// a few hot keys so that the sections of different readers meet on the same cache entry
	type key struct {
		id     string
		size   int
		period int64
	}
	sizes := []int{0, 1, 2, 2, 3, n + 1}
	hot := make([]key, 3)
	for k := range hot {
		hot[k] = key{pick(r, []string{"t0", "t1"}), pick(r, sizes), pick(r, []int64{10, 60})}
	}
	maxN := n
	var pend, pendL []c13Pend
	freshRing := func() *ring.Ring {
		f, err := ring.VerifNewRing(mkCfg(true), cloneDesc(cur), nil)
		if err != nil {
			panic(err)
		}
		return f
	}
	selfTag := func(owner *ring.Ring, sub ring.ReadRing) string {
		if sr, ok := sub.(*ring.Ring); ok && sr == owner {
			return "self#"
		}
		return "sub#"
	}
	topo := []string{"add", "remove", "ro", "tokens", "zone", "reg", "rots"}
	soft := []string{"hb", "state", "hbstate", "equal"}
	nSteps := 10 + r.intn(28)
	for k := 0; k < nSteps; k++ {
		hk := pick(r, hot)
		nowQ := c13Base + int64(r.intn(90)) - 30
		x := r.intn(100)
		switch {
		case x < 20: // ---- writer ----
			kind := pick(r, topo)
			if r.chance(2, 5) {
				kind = pick(r, soft)
			}
			nd := c13Shallow(cur)
			if r.chance(1, 2) {
				nd = cloneDesc(cur)
			}
			ids := c12SortedIDs(nd)
			id := pick(r, ids)
			i := nd.Ingesters[id]
			switch kind {
			case "hb":
				i.Timestamp += int64(1 + r.intn(5))
			case "state":
				i.State = allStates[(int(i.State)+1+r.intn(4))%5]
			case "hbstate":
				i.State = allStates[(int(i.State)+1+r.intn(4))%5]
				i.Timestamp += int64(1 + r.intn(5))
			case "equal":
			case "add":
				ni := newInst()
				nd.Ingesters[ni.Id] = ni
			case "remove":
				if len(ids) > 1 {
					delete(nd.Ingesters, id)
				}
			case "ro":
				i.ReadOnly = !i.ReadOnly
				i.ReadOnlyUpdatedTimestamp = c13Base - int64(r.intn(120))
			case "rots":
				i.ReadOnlyUpdatedTimestamp = c13Base - int64(r.intn(120)) + 1
			case "tokens":
				ni := g.newInst(i.Zone, maxTok, false, false)
				g.nextID--
				i.Tokens = ni.Tokens
			case "zone":
				i.Zone = pick(r, c12ZoneNames)
			case "reg":
				i.RegisteredTimestamp = regTs()
			}
			if kind != "add" && kind != "remove" {
				nd.Ingesters[id] = i
			}
			cur = nd
			if len(cur.Ingesters) > maxN {
				maxN = len(cur.Ingesters)
			}
			long.VerifUpdateRingState(c13Shallow(cur))
			s := stampID()
			put("U!"+kind+"!"+encDesc(cur), s, s)
		case x < 32: // ---- reader section 1 ----
			a, b := "miss", "miss"
			if c := long.VerifShardLookup(hk.id, hk.size); c != nil {
				a = c13Members(c)
				b = c13Members(freshRing().ShuffleShard(hk.id, hk.size))
			}
			put("R1!"+hk.id+"!"+itoa(hk.size), a, b)
		case x < 46: // ---- reader section 2 ----
			sub := long.VerifShardCompute(hk.id, hk.size)
			a := selfTag(long, sub) + c13Members(sub)
			f := freshRing()
			fs := f.ShuffleShard(hk.id, hk.size)
			b := selfTag(f, fs) + c13Members(fs)
			if sub != long {
				pend = append(pend, c13Pend{id: hk.id, size: hk.size, sub: sub})
			}
			put("R2!"+hk.id+"!"+itoa(hk.size), a, b)
		case x < 60: // ---- reader section 3 (any pending sub-ring, also repeatedly / out of order) ----
			if len(pend) == 0 {
				k--
				continue
			}
			j := len(pend) - 1 - r.intn(min(len(pend), 3))
			p := pend[j]
			long.VerifShardStore(p.id, p.size, p.sub)
			put("R3!"+itoa(j), "-", "-")
		case x < 68: // ---- look-back section 1 ----
			a, b := "miss", "miss"
			if c := long.VerifShardLookupLB(hk.id, hk.size, time.Duration(hk.period)*time.Second, time.Unix(nowQ, 0)); c != nil {
				a = c13Members(c)
				b = c13Members(freshRing().ShuffleShardWithLookback(hk.id, hk.size, time.Duration(hk.period)*time.Second, time.Unix(nowQ, 0)))
			}
			put("L1!"+hk.id+"!"+itoa(hk.size)+"!"+strconv.FormatInt(hk.period, 10)+"!"+strconv.FormatInt(nowQ, 10), a, b)
		case x < 78: // ---- look-back section 2 ----
			sub := long.VerifShardComputeLB(hk.id, hk.size, time.Duration(hk.period)*time.Second, time.Unix(nowQ, 0))
			a := selfTag(long, sub) + c13Members(sub)
			f := freshRing()
			fs := f.ShuffleShardWithLookback(hk.id, hk.size, time.Duration(hk.period)*time.Second, time.Unix(nowQ, 0))
			b := selfTag(f, fs) + c13Members(fs)
			if sub != long {
				pendL = append(pendL, c13Pend{id: hk.id, size: hk.size, period: hk.period, now: nowQ, sub: sub})
			}
			put("L2!"+hk.id+"!"+itoa(hk.size)+"!"+strconv.FormatInt(hk.period, 10)+"!"+strconv.FormatInt(nowQ, 10), a, b)
		case x < 88: // ---- look-back section 3 ----
			if len(pendL) == 0 {
				k--
				continue
			}
			j := len(pendL) - 1 - r.intn(min(len(pendL), 3))
			p := pendL[j]
			long.VerifShardStoreLB(p.id, p.size, time.Duration(p.period)*time.Second, time.Unix(p.now, 0), p.sub)
			put("L3!"+itoa(j), "-", "-")
		case x < 90:
			long.CleanupShuffleShardCache(hk.id)
			put("K!"+hk.id, "-", "-")
		case x < 96: // ---- an undisturbed query ----
			put("P!S!"+hk.id+"!"+itoa(hk.size), c13Members(long.ShuffleShard(hk.id, hk.size)), c13Members(freshRing().ShuffleShard(hk.id, hk.size)))
		default:
			put("P!L!"+hk.id+"!"+itoa(hk.size)+"!"+strconv.FormatInt(hk.period, 10)+"!"+strconv.FormatInt(nowQ, 10),
				c13Members(long.ShuffleShardWithLookback(hk.id, hk.size, time.Duration(hk.period)*time.Second, time.Unix(nowQ, 0))),
				c13Members(freshRing().ShuffleShardWithLookback(hk.id, hk.size, time.Duration(hk.period)*time.Second, time.Unix(nowQ, 0))))
		}
	}
	// quiescence: every hot key is looked up once more (section 1 only: what is in the cache now must be fresh)
	for _, hk := range hot {
		a, b := "miss", "miss"
		if c := long.VerifShardLookup(hk.id, hk.size); c != nil {
			a = c13Members(c)
			b = c13Members(freshRing().ShuffleShard(hk.id, hk.size))
		}
		put("R1!"+hk.id+"!"+itoa(hk.size), a, b)
	}
	var st []string
	for _, id := range []string{"t0", "t1"} {
		for _, z := range c13ZoneNames {
			st = append(st, id+"@"+showStr(z)+"="+c12Stream(id, z, maxN+5))
		}
	}
	zaS := "0"
	if za {
		zaS = "1"
	}
	e.emit("C13.ihist", zaS, itoa(n), strings.Join(st, "|"), strings.Join(steps, "|"), strings.Join(longA, "|"), strings.Join(freshA, "|"))
}

// `corr C13.il` runs the section stream alone (debugging aid; `corr C13` includes it).
func init() {
	register("C13.il", func(e *env) {
		nI := 900
		if !e.quick {
			nI = 15000
		}
		r := newRng(e.seed, 4)
		for i := 0; i < nI; i++ {
			c13IHist(e, r)
		}
	})
}
