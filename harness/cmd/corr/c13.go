package main

// C13 — a ring client's answers depend only on the latest ring content. A long-lived ring.Ring
// (shuffle-shard caches on) is fed with descriptor updates (as the KV watch callback would) and
// queried in between; after every step the same query is put to a client freshly built, cache-less,
// from the latest descriptor. Case kinds (see lean/Oracle/C13.lean):
//   C13.hist  za rf streams steps | long fresh
//   C13.phist cache streams steps | long fresh      (PartitionRingWatcher)
//   C13.conc  round za n phases | mismatches         (concurrent readers; judged only, not reproducible from the seed)
//   C13.tables                                       (InstanceDesc proto fields vs RingCompare fields)

import (
	"fmt"
	"go/ast"
	"go/parser"
	"go/token"
	"maps"
	"os"
	"path/filepath"
	"reflect"
	"runtime"
	"sort"
	"strconv"
	"strings"
	"sync"
	"sync/atomic"
	"time"

	"github.com/go-kit/log"

	"github.com/grafana/dskit/ring"
)

func init() {
	register("C13", runC13)
	register("C13.tables", c13Tables)
}

var c13AllOp = ring.NewOp([]ring.InstanceState{ring.ACTIVE, ring.LEAVING, ring.PENDING, ring.JOINING, ring.LEFT}, nil)

const c13Timeout = 100 * 365 * 24 * time.Hour

func c13EncInsts(is []ring.InstanceDesc, keepOrder bool) string {
	if len(is) == 0 {
		return "-"
	}
	cp := append([]ring.InstanceDesc(nil), is...)
	if !keepOrder {
		sort.Slice(cp, func(a, b int) bool { return cp[a].Id < cp[b].Id })
	}
	ps := make([]string, len(cp))
	for j, i := range cp {
		ps[j] = encInst(i.Id, i)
	}
	return strings.Join(ps, ";")
}

func c13Err(err error) string {
	if err == ring.ErrEmptyRing {
		return "err:empty"
	}
	return "err"
}

// c13Sub: members (every InstanceDesc field) # InstancesCount # ZonesCount # Get(key) on the sub-ring
func c13Sub(rr ring.ReadRing, key uint32) string {
	rs, err := rr.GetAllHealthy(c13AllOp)
	m := "-"
	if err == nil {
		m = c13EncInsts(rs.Instances, false)
	} else if err != ring.ErrEmptyRing {
		m = "err"
	}
	g := ""
	if gs, err := rr.Get(key, c13AllOp, nil, nil, nil); err != nil {
		g = c13Err(err)
	} else {
		g = c13EncInsts(gs.Instances, true) + "^" + itoa(gs.MaxErrors)
	}
	return m + "#" + itoa(rr.InstancesCount()) + "#" + itoa(rr.ZonesCount()) + "#" + g
}

var c13ZoneNames = []string{"", "a", "b", "c", "d", "e"}

func c13Counts(r *ring.Ring) string {
	ps := make([]string, len(c13ZoneNames))
	for i, z := range c13ZoneNames {
		ps[i] = showStr(z) + ":" + itoa(r.InstancesInZoneCount(z)) + ":" + itoa(r.InstancesWithTokensInZoneCount(z)) + ":" + itoa(r.WritableInstancesWithTokensInZoneCount(z))
	}
	return itoa(r.InstancesCount()) + "," + itoa(r.ZonesCount()) + "," + itoa(r.InstancesWithTokensCount()) + "," + itoa(r.WritableInstancesWithTokensCount()) + ";" + strings.Join(ps, ";")
}

func c13RS(rs ring.ReplicationSet, err error, keepOrder bool) string {
	if err != nil {
		return c13Err(err)
	}
	za := "0"
	if rs.ZoneAwarenessEnabled {
		za = "1"
	}
	return c13EncInsts(rs.Instances, keepOrder) + "^" + itoa(rs.MaxErrors) + "^" + itoa(rs.MaxUnavailableZones) + "^" + za
}

// c13Answer runs one query step against a client.
func c13Answer(r *ring.Ring, q []string) string {
	switch q[1] {
	case "S":
		size, _ := strconv.Atoi(q[3])
		key, _ := strconv.ParseUint(q[4], 10, 32)
		return c13Sub(r.ShuffleShard(q[2], size), uint32(key))
	case "L":
		size, _ := strconv.Atoi(q[3])
		period, _ := strconv.ParseInt(q[4], 10, 64)
		now, _ := strconv.ParseInt(q[5], 10, 64)
		key, _ := strconv.ParseUint(q[6], 10, 32)
		return c13Sub(r.ShuffleShardWithLookback(q[2], size, time.Duration(period)*time.Second, time.Unix(now, 0)), uint32(key))
	case "O":
		key, _ := strconv.ParseUint(q[3], 10, 32)
		return c13Sub(r.GetSubringForOperationStates(c13OpOf(q[2])), uint32(key))
	case "G":
		key, _ := strconv.ParseUint(q[2], 10, 32)
		rs, err := r.Get(uint32(key), c13AllOp, nil, nil, nil)
		if err != nil {
			return "err"
		}
		return c13EncInsts(rs.Instances, true)
	case "C":
		return c13Counts(r)
	case "A":
		rs, err := r.GetAllHealthy(c13AllOp)
		if err != nil {
			return "-"
		}
		return c13EncInsts(rs.Instances, false)
	case "I":
		i, err := r.GetInstance(unStr(q[2]))
		if err != nil || !r.HasInstance(unStr(q[2])) {
			return "err"
		}
		return encInst(i.Id, i)
	case "X":
		switch q[2] {
		case "R":
			rs, err := r.GetReplicationSetForOperation(ring.Read)
			return c13RS(rs, err, false)
		case "T":
			tr, err := r.GetTokenRangesForInstance(unStr(q[3]))
			if err != nil {
				return "err"
			}
			return u32s(tr)
		case "W":
			key, _ := strconv.ParseUint(q[3], 10, 32)
			rs, err := r.Get(uint32(key), ring.Write, nil, nil, nil)
			return c13RS(rs, err, true)
		case "Z":
			return strings.Join(r.Zones(), ",") + "/" + itoa(r.ReplicationFactor())
		}
	}
	panic("bad query " + strings.Join(q, "!"))
}

// c13OpOf: the operation whose healthy states are the given state letters (A L P J X); the three
// predefined operations are used as they are, anything else is a custom NewOp mask.
func c13OpOf(mask string) ring.Operation {
	switch mask {
	case "ALP":
		return ring.Read
	case "A":
		return ring.Write
	case "ALPJX":
		return ring.Reporting
	}
	var sts []ring.InstanceState
	for _, ch := range mask {
		sts = append(sts, allStates[strings.IndexRune("ALPJX", ch)])
	}
	return ring.NewOp(sts, nil)
}

var c13OpMasks = []string{"ALP", "A", "ALPJX", "AJ", "L", "PJ", "AL"}

func c13Shallow(d *ring.Desc) *ring.Desc {
	return &ring.Desc{Ingesters: maps.Clone(d.Ingesters)} // token slices and version maps shared
}

// c13Stored turns a descriptor into what the KV store holds when (some) instances were registered by an
// older lifecycler / a struct literal: InstanceDesc.Id is empty and the map key alone is the id
// (mode 0: every instance carries its Id; 1: none does; 2: those with an even numeric suffix do not).
// The case line always records the map keys, and the model's instances always carry id = map key
// (the model of setInstanceIDs), so an answer with an empty Id disagrees with both the fresh client
// and the model.
func c13Stored(d *ring.Desc, mode int) *ring.Desc {
	if mode == 0 {
		return d
	}
	for k, i := range d.Ingesters {
		strip := mode == 1
		if mode == 2 && len(k) > 0 && (k[len(k)-1]-'0')%2 == 0 {
			strip = true
		}
		if strip {
			i.Id = ""
			d.Ingesters[k] = i
		}
	}
	return d
}

func c13CmpCode(c ring.CompareResult) string {
	switch c {
	case ring.Equal:
		return "E"
	case ring.EqualButStatesAndTimestamps:
		return "S"
	}
	return "D"
}

const c13Base = int64(1700000000)

func c13Hist(e *env, r *rng) {
	za := r.chance(1, 2)
	rf := 1
	if r.chance(1, 3) {
		rf = 2 + r.intn(2)
	}
	g := &c12Gen{r: r, used: map[uint32]bool{}}
	nz := 1 + r.intn(3)
	zones := append([]string{}, c12ZoneNames[:nz]...)
	if r.chance(1, 8) {
		zones[0] = ""
	}
	n := 2 + r.intn(6)
	maxTok := 1 + r.intn(3)
	small := r.chance(1, 3)
	idents := []string{"t0", "t1"}
	// GetSubringForOperationStates: two operations per history, so that the same one is asked again
	opMasks := []string{pick(r, c13OpMasks), pick(r, c13OpMasks)}
	regTs := func() int64 {
		switch r.intn(4) {
		case 0:
			return c13Base - int64(r.intn(120))
		case 1:
			return 0
		default:
			return c13Base - 5000 - int64(r.intn(1000))
		}
	}
	newInst := func() ring.InstanceDesc {
		i := g.newInst(pick(r, zones), maxTok, small, r.chance(1, 25))
		i.Timestamp = c13Base - int64(r.intn(50))
		i.RegisteredTimestamp = regTs()
		if r.chance(1, 6) {
			i.ReadOnly = true
			i.ReadOnlyUpdatedTimestamp = c13Base - int64(r.intn(120))
		} else if r.chance(1, 6) {
			i.ReadOnlyUpdatedTimestamp = c13Base - int64(r.intn(120))
		}
		if r.chance(1, 3) {
			i.Versions = map[uint64]uint64{uint64(r.intn(2)): uint64(1 + r.intn(3))}
		}
		return i
	}
	cur := ring.NewDesc()
	for k := 0; k < n; k++ {
		i := newInst()
		cur.Ingesters[i.Id] = i
	}
	mkCfg := func(cacheOff bool) ring.Config {
		return ring.Config{ReplicationFactor: rf, ZoneAwarenessEnabled: za, HeartbeatTimeout: c13Timeout, SubringCacheDisabled: cacheOff}
	}
	idMode := pick(r, []int{0, 0, 1, 2})
	kindSfx := ""
	if idMode != 0 {
		kindSfx = "~noid"
	}
	long, err := ring.VerifNewRing(mkCfg(false), c13Stored(c13Shallow(cur), idMode), nil)
	if err != nil {
		panic(err)
	}
	var steps, longA, freshA []string
	steps = append(steps, "U!init"+kindSfx+"!"+encDesc(cur))
	longA = append(longA, "D")
	freshA = append(freshA, "D")
	if len(cur.Ingesters) == 0 {
		longA[0], freshA[0] = "E", "E"
	}
	nSteps := 8 + r.intn(22)
	maxN := n
	sizes := []int{0, 1, 2, 2, 2, 3, 3, n + 1}
	periods := []int64{10, 60, 60}
	// the first 14 are single-field mutations (used by "multi"); the tail repeats the kinds that keep the topology
	kinds := []string{"hb", "hb", "state", "hbstate", "tokens", "zone", "addr", "reg", "ro", "rots", "versions", "versions", "add", "remove", "equal", "equalsame", "rename", "multi",
		"hb", "hb", "hb", "state", "state", "hbstate", "versions", "versions", "equal", "hb", "state", "hbstate", "emptyzone", "emptyzone"}
	for k := 0; k < nSteps; k++ {
		if r.chance(1, 3) {
			// ---- update ----
			kind := pick(r, kinds)
			var nd *ring.Desc
			if r.chance(1, 2) {
				nd = c13Shallow(cur)
			} else {
				nd = cloneDesc(cur)
			}
			ids := c12SortedIDs(nd)
			mutate := func(kind string) {
				if len(ids) == 0 {
					return
				}
				x := pick(r, ids)
				i, ok := nd.Ingesters[x]
				if !ok {
					return
				}
				switch kind {
				case "hb":
					for _, y := range ids {
						if j, ok := nd.Ingesters[y]; ok && r.chance(1, 2) {
							j.Timestamp += int64(1 + r.intn(5))
							nd.Ingesters[y] = j
						}
					}
					i.Timestamp += 1
				case "state":
					i.State = allStates[(int(i.State)+1+r.intn(4))%5]
				case "hbstate":
					i.State = allStates[(int(i.State)+1+r.intn(4))%5]
					i.Timestamp += int64(1 + r.intn(5))
				case "tokens":
					ni := g.newInst(i.Zone, maxTok, small, false)
					g.nextID--
					i.Tokens = ni.Tokens
				case "zone":
					i.Zone = pick(r, c12ZoneNames)
				case "addr":
					i.Addr = i.Addr + "x"
				case "reg":
					i.RegisteredTimestamp = regTs()
				case "ro":
					i.ReadOnly = !i.ReadOnly
					i.ReadOnlyUpdatedTimestamp = c13Base - int64(r.intn(120))
				case "rots":
					i.ReadOnlyUpdatedTimestamp = c13Base - int64(r.intn(120)) + 1
				case "versions":
					m := map[uint64]uint64{}
					for kk, v := range i.Versions {
						m[kk] = v
					}
					switch r.intn(3) {
					case 0:
						m[uint64(r.intn(2))] = uint64(4 + r.intn(5))
					case 1:
						m[uint64(r.intn(2))]++
					default:
						m = nil
						if len(i.Versions) == 0 {
							m = map[uint64]uint64{7: 7}
						}
					}
					i.Versions = m
				case "emptyzone":
					// a zone loses its last instance: the client has seen a zone that no longer exists
					zs := map[string]bool{}
					for _, j := range nd.Ingesters {
						zs[j.Zone] = true
					}
					if len(zs) > 1 {
						for _, y := range ids {
							if j, ok := nd.Ingesters[y]; ok && j.Zone == i.Zone {
								delete(nd.Ingesters, y)
							}
						}
					}
					return
				case "remove":
					if len(nd.Ingesters) > 1 || r.chance(1, 4) {
						delete(nd.Ingesters, x)
					}
					return
				case "rename":
					delete(nd.Ingesters, x)
					i.Id = "r" + x
					nd.Ingesters[i.Id] = i
					return
				case "add":
					ni := newInst()
					nd.Ingesters[ni.Id] = ni
					return
				}
				nd.Ingesters[x] = i
			}
			switch kind {
			case "equal":
			case "equalsame":
				nd = nil // the very same object again
			case "multi":
				mutate(pick(r, kinds[:14]))
				mutate(pick(r, kinds[:14]))
			default:
				mutate(kind)
			}
			var prev *ring.Desc = cur
			if nd != nil {
				cur = nd
			}
			if len(cur.Ingesters) > maxN {
				maxN = len(cur.Ingesters)
			}
			cmp := c13CmpCode(prev.RingCompare(cur))
			if nd == nil {
				// pass the object the client already holds: rebuild an equal shallow clone instead of
				// aliasing the harness' copy (the client owns what it was given)
				long.VerifUpdateRingState(c13Stored(c13Shallow(cur), idMode))
			} else {
				long.VerifUpdateRingState(c13Stored(c13Shallow(cur), idMode))
			}
			steps = append(steps, "U!"+kind+kindSfx+"!"+encDesc(cur))
			longA = append(longA, cmp)
			freshA = append(freshA, cmp)
			continue
		}
		// ---- query ----
		var q []string
		key := func() string {
			if r.chance(1, 2) {
				return strconv.FormatUint(uint64(pick(r, boundaryTokens)), 10)
			}
			return strconv.FormatUint(uint64(r.intn(70)), 10)
		}
		ids := c12SortedIDs(cur)
		someID := "i0"
		if len(ids) > 0 && r.chance(5, 6) {
			someID = pick(r, ids)
		}
		switch r.intn(23) {
		case 20, 21, 22:
			q = []string{"Q", "O", pick(r, opMasks), key()}
		case 0, 1, 2, 3, 4, 5, 6:
			q = []string{"Q", "S", pick(r, idents), itoa(pick(r, sizes)), key()}
		case 7, 8, 9, 10, 11:
			now := c13Base + int64(r.intn(90)) - 30
			q = []string{"Q", "L", pick(r, idents), itoa(pick(r, sizes)), strconv.FormatInt(pick(r, periods), 10), strconv.FormatInt(now, 10), key()}
		case 12, 13:
			q = []string{"Q", "G", key()}
		case 14:
			q = []string{"Q", "C"}
		case 15:
			q = []string{"Q", "A"}
		case 16:
			q = []string{"Q", "I", showStr(someID)}
		case 17:
			q = []string{"Q", "X", "R"}
		case 18:
			q = []string{"Q", "X", "T", showStr(someID)}
		default:
			if r.chance(1, 4) {
				q = []string{"Q", "X", "Z"}
			} else {
				q = []string{"Q", "X", "W", key()}
			}
		}
		if r.chance(1, 25) {
			// CleanupShuffleShardCache(identifier): a step of its own (no answer), applied to the long-lived client
			id := pick(r, idents)
			long.CleanupShuffleShardCache(id)
			steps = append(steps, "K!"+id)
			longA = append(longA, "-")
			freshA = append(freshA, "-")
			continue
		}
		if q[1] == "G" && (rf != 1) {
			q = []string{"Q", "X", "W", q[2]}
		}
		fresh, err := ring.VerifNewRing(mkCfg(true), c13Stored(cloneDesc(cur), idMode), nil)
		if err != nil {
			panic(err)
		}
		steps = append(steps, strings.Join(q, "!"))
		longA = append(longA, c13Answer(long, q))
		freshA = append(freshA, c13Answer(fresh, q))
		if q[1] == "O" && len(cur.Ingesters) > 0 && r.chance(2, 3) {
			// the same operation asked again after an update that changes ONLY the state (and perhaps the
			// heartbeat) of one instance: the sub-ring's membership depends on exactly that
			prev := cur
			nd := c13Shallow(cur)
			x := pick(r, c12SortedIDs(nd))
			i := nd.Ingesters[x]
			i.State = allStates[(int(i.State)+1+r.intn(4))%5]
			if r.chance(1, 2) {
				i.Timestamp += int64(1 + r.intn(5))
			}
			nd.Ingesters[x] = i
			cur = nd
			cmp := c13CmpCode(prev.RingCompare(cur))
			long.VerifUpdateRingState(c13Stored(c13Shallow(cur), idMode))
			steps = append(steps, "U!state"+kindSfx+"!"+encDesc(cur))
			longA = append(longA, cmp)
			freshA = append(freshA, cmp)
			fresh2, err := ring.VerifNewRing(mkCfg(true), c13Stored(cloneDesc(cur), idMode), nil)
			if err != nil {
				panic(err)
			}
			steps = append(steps, strings.Join(q, "!"))
			longA = append(longA, c13Answer(long, q))
			freshA = append(freshA, c13Answer(fresh2, q))
		}
	}
	// streams for the three identifiers over all zones
	var st []string
	for _, id := range idents {
		for _, z := range c13ZoneNames {
			st = append(st, id+"@"+showStr(z)+"="+c12Stream(id, z, maxN+5))
		}
	}
	zaS := "0"
	if za {
		zaS = "1"
	}
	e.emit("C13.hist", zaS, itoa(rf), strings.Join(st, "|"), strings.Join(steps, "|"), strings.Join(longA, "|"), strings.Join(freshA, "|"))
}

// ---- partition ring watcher ----

func c13EncOwners(d *ring.PartitionRing, ids []int32) string {
	var ps []string
	for _, id := range ids {
		o := append([]string(nil), d.PartitionOwnerIDs(id)...)
		sort.Strings(o)
		ps = append(ps, itoa(int(id))+":"+strings.Join(o, "+"))
	}
	if len(ps) == 0 {
		return "-"
	}
	return strings.Join(ps, ",")
}

func c13PAnswer(pr *ring.PartitionRing, err error) string {
	if err != nil {
		return "err"
	}
	ids := pr.PartitionIDs()
	parts := pr.Partitions()
	sort.Slice(parts, func(a, b int) bool { return parts[a].Id < parts[b].Id })
	ps := make([]string, len(parts))
	for i, p := range parts {
		lock := "0"
		if p.StateChangeLocked {
			lock = "1"
		}
		ps[i] = c12EncPart(p) + "/" + lock + "/" + strconv.FormatInt(p.StateChangeLockedTimestamp, 10)
	}
	full := "-"
	if len(ps) > 0 {
		full = strings.Join(ps, ";")
	}
	idS := "-"
	if len(ids) > 0 {
		o := make([]string, len(ids))
		for i, id := range ids {
			o[i] = itoa(int(id))
		}
		idS = strings.Join(o, ",")
	}
	return idS + "#" + full + "#" + c13EncOwners(pr, ids) + "#" + itoa(pr.ActivePartitionsCount()) + "/" + itoa(pr.PartitionsCount())
}

func c13PHist(e *env, r *rng) {
	g := &c12Gen{r: r, used: map[uint32]bool{}}
	cacheSize := pick(r, []int{0, 0, 1, 2})
	opts := ring.PartitionRingOptions{ShuffleShardCacheSize: cacheSize}
	w := ring.NewPartitionRingWatcherWithOptions("verif", "key", nil, opts, log.NewNopLogger(), nil)
	n := 2 + r.intn(6)
	maxTok := 1 + r.intn(3)
	idents := []string{"t0", "t1"}
	cur := ring.NewPartitionRingDesc()
	nextID := int32(0)
	stateTs := func() int64 {
		if r.chance(1, 2) {
			return c13Base - int64(r.intn(120))
		}
		return c13Base - 5000
	}
	newPart := func() ring.PartitionDesc {
		p := g.newPart(nextID, maxTok, false)
		nextID++
		p.State = pick(r, []ring.PartitionState{ring.PartitionActive, ring.PartitionActive, ring.PartitionActive, ring.PartitionInactive, ring.PartitionPending})
		p.StateTimestamp = stateTs()
		return p
	}
	for k := 0; k < n; k++ {
		p := newPart()
		cur.Partitions[p.Id] = p
		if r.chance(2, 3) {
			cur.Owners["o"+itoa(int(p.Id))] = ring.OwnerDesc{OwnedPartition: p.Id, State: ring.OwnerActive, UpdatedTimestamp: c13Base - 100}
		}
	}
	var steps, longA, freshA []string
	push := func(kind string) {
		if err := w.VerifUpdatePartitionRing(c12CloneParts(cur)); err != nil {
			panic(err)
		}
		steps = append(steps, "U!"+kind+"!"+c12EncParts(cur))
		longA = append(longA, "-")
		freshA = append(freshA, "-")
	}
	push("init")
	maxN := n
	sizes := []int{0, 1, 2, 2, 3, n + 1}
	nSteps := 8 + r.intn(20)
	for k := 0; k < nSteps; k++ {
		if r.chance(1, 4) {
			nd := c12CloneParts(cur)
			ids := []int32{}
			for id := range nd.Partitions {
				ids = append(ids, id)
			}
			sort.Slice(ids, func(a, b int) bool { return ids[a] < ids[b] })
			kind := pick(r, []string{"state", "state", "add", "remove", "equal", "owner", "ts", "lock"})
			if len(ids) > 0 {
				x := pick(r, ids)
				p := nd.Partitions[x]
				switch kind {
				case "state":
					switch p.State {
					case ring.PartitionPending:
						p.State = ring.PartitionActive
					case ring.PartitionActive:
						p.State = ring.PartitionInactive
					default:
						p.State = ring.PartitionActive
					}
					p.StateTimestamp = c13Base - int64(r.intn(120))
					nd.Partitions[x] = p
				case "ts":
					p.StateTimestamp = stateTs()
					nd.Partitions[x] = p
				case "lock":
					p.StateChangeLocked = !p.StateChangeLocked
					p.StateChangeLockedTimestamp = c13Base
					nd.Partitions[x] = p
				case "remove":
					if len(ids) > 1 {
						delete(nd.Partitions, x)
					}
				case "owner":
					nd.Owners["n"+itoa(k)] = ring.OwnerDesc{OwnedPartition: x, State: ring.OwnerActive, UpdatedTimestamp: c13Base}
				}
			}
			if kind == "add" {
				p := newPart()
				nd.Partitions[p.Id] = p
			}
			cur = nd
			if len(cur.Partitions) > maxN {
				maxN = len(cur.Partitions)
			}
			push(kind)
			continue
		}
		var q []string
		long := w.PartitionRing()
		fresh, err := ring.NewPartitionRing(*c12CloneParts(cur))
		if err != nil {
			panic(err)
		}
		if r.chance(1, 4) {
			// a shard of a shard: sub := ring.ShuffleShard(a, n); sub.ShuffleShard(b, m) (or …WithLookback). The
			// sub-ring is a PartitionRing of its own; what it caches must never show up in the parent's answers.
			a, n := pick(r, idents), pick(r, sizes)
			b, m := pick(r, idents), pick(r, []int{1, 1, 2, 2, 3})
			period := pick(r, []int64{0, 0, 60})
			now := c13Base + int64(r.intn(90)) - 30
			q = []string{"Q", "N", a, itoa(n), b, itoa(m), strconv.FormatInt(period, 10), strconv.FormatInt(now, 10)}
			nested := func(pr *ring.PartitionRing) string {
				sub, err := pr.ShuffleShard(a, n)
				if err != nil {
					return "err"
				}
				if period == 0 {
					return c13PAnswer(sub.ShuffleShard(b, m))
				}
				return c13PAnswer(sub.ShuffleShardWithLookback(b, m, time.Duration(period)*time.Second, time.Unix(now, 0)))
			}
			longA = append(longA, nested(long))
			freshA = append(freshA, nested(fresh))
		} else if r.chance(1, 3) {
			size := pick(r, sizes)
			q = []string{"Q", "S", pick(r, idents), itoa(size)}
			a, err := long.ShuffleShard(q[2], size)
			longA = append(longA, c13PAnswer(a, err))
			b, err := fresh.ShuffleShard(q[2], size)
			freshA = append(freshA, c13PAnswer(b, err))
		} else {
			size := pick(r, sizes)
			period := pick(r, []int64{10, 60, 60})
			now := c13Base + int64(r.intn(90)) - 30
			q = []string{"Q", "L", pick(r, idents), itoa(size), strconv.FormatInt(period, 10), strconv.FormatInt(now, 10)}
			a, err := long.ShuffleShardWithLookback(q[2], size, time.Duration(period)*time.Second, time.Unix(now, 0))
			longA = append(longA, c13PAnswer(a, err))
			b, err := fresh.ShuffleShardWithLookback(q[2], size, time.Duration(period)*time.Second, time.Unix(now, 0))
			freshA = append(freshA, c13PAnswer(b, err))
		}
		steps = append(steps, strings.Join(q, "!"))
	}
	var st []string
	for _, id := range idents {
		st = append(st, id+"="+c12Stream(id, "", maxN+8))
	}
	e.emit("C13.phist", itoa(cacheSize), strings.Join(st, "|"), strings.Join(steps, "|"), strings.Join(longA, "|"), strings.Join(freshA, "|"))
}

// c13Conc: concurrent readers. A long-lived ring (caches on) is read by K goroutines looping over
// ShuffleShard / ShuffleShardWithLookback for a handful of (identifier, size) pairs while the main
// goroutine pushes bursts of topology-changing updates through updateRingState with tiny random gaps.
// After every burst the readers are stopped (quiescence) and, for every pair, the long-lived ring's
// answer is compared with a fresh cache-less ring built from the LATEST descriptor. The interleaving
// (and hence a failure) is not reproducible from the seed; the descriptors and the pairs are.
func c13Conc(e *env, r *rng, round int) {
	done := e.begin("C13.conc round " + itoa(round))
	defer done()
	za := r.chance(1, 2)
	g := &c12Gen{r: r, used: map[uint32]bool{}}
	nz := 1 + r.intn(3)
	zones := append([]string{}, c12ZoneNames[:nz]...)
	n := 4 + r.intn(5)
	newInst := func() ring.InstanceDesc {
		i := g.newInst(pick(r, zones), 1+r.intn(3), false, false)
		i.Timestamp = c13Base
		i.RegisteredTimestamp = c13Base - 5000 - int64(r.intn(100))
		return i
	}
	cur := ring.NewDesc()
	for k := 0; k < n; k++ {
		i := newInst()
		cur.Ingesters[i.Id] = i
	}
	mkCfg := func(cacheOff bool) ring.Config {
		return ring.Config{ReplicationFactor: 1, ZoneAwarenessEnabled: za, HeartbeatTimeout: c13Timeout, SubringCacheDisabled: cacheOff}
	}
	long, err := ring.VerifNewRing(mkCfg(false), c13Shallow(cur), nil)
	if err != nil {
		panic(err)
	}
	type pair struct {
		id   string
		size int
		lb   bool
	}
	pairs := []pair{{"t0", 1, false}, {"t1", 2, false}, {"t0", 2, false}, {"t1", 3, false}, {"t0", 2, true}, {"t1", 1, true}}
	period := 60 * time.Second
	nowT := time.Unix(c13Base, 0)
	query := func(rg *ring.Ring, p pair) string {
		var sub ring.ReadRing
		if p.lb {
			sub = rg.ShuffleShardWithLookback(p.id, p.size, period, nowT)
		} else {
			sub = rg.ShuffleShard(p.id, p.size)
		}
		rs, err := sub.GetAllHealthy(c13AllOp)
		if err != nil {
			return "-"
		}
		return c13EncInsts(rs.Instances, false)
	}
	mutate := func(d *ring.Desc) *ring.Desc {
		nd := c13Shallow(d)
		ids := c12SortedIDs(nd)
		switch r.intn(4) {
		case 0:
			ni := newInst()
			nd.Ingesters[ni.Id] = ni
		case 1:
			if len(ids) > 3 {
				delete(nd.Ingesters, pick(r, ids))
			} else {
				ni := newInst()
				nd.Ingesters[ni.Id] = ni
			}
		case 2:
			x := pick(r, ids)
			i := nd.Ingesters[x]
			i.ReadOnly = !i.ReadOnly
			i.ReadOnlyUpdatedTimestamp = c13Base - 1000
			nd.Ingesters[x] = i
		default:
			x := pick(r, ids)
			i := nd.Ingesters[x]
			ni := g.newInst(i.Zone, 1+r.intn(3), false, false)
			g.nextID--
			i.Tokens = ni.Tokens
			nd.Ingesters[x] = i
		}
		return nd
	}
	phases := 25
	const K = 4
	var mism []string
	spin := 0
	for ph := 0; ph < phases; ph++ {
		// the burst is prepared in advance so that the gaps between the updates are tiny
		burst := make([]*ring.Desc, 2+r.intn(3))
		d := cur
		for j := range burst {
			d = mutate(d)
			burst[j] = d
		}
		gaps := make([]int, len(burst))
		for j := range gaps {
			gaps[j] = r.intn(400)
		}
		var stop atomic.Bool
		var iters atomic.Int64
		var wg sync.WaitGroup
		for k := 0; k < K; k++ {
			wg.Add(1)
			go func(k int) {
				defer wg.Done()
				for j := k; !stop.Load(); j++ {
					_ = query(long, pairs[j%len(pairs)])
					iters.Add(1)
				}
			}(k)
		}
		for iters.Load() < K {
			runtime.Gosched()
		}
		for j, nd := range burst {
			long.VerifUpdateRingState(c13Shallow(nd))
			for x := 0; x < gaps[j]; x++ {
				spin += x
			}
			if gaps[j]%3 == 0 {
				runtime.Gosched()
			}
		}
		target := iters.Load() + 2*K
		for iters.Load() < target {
			runtime.Gosched()
		}
		stop.Store(true)
		wg.Wait()
		cur = burst[len(burst)-1]
		fresh, err := ring.VerifNewRing(mkCfg(true), cloneDesc(cur), nil)
		if err != nil {
			panic(err)
		}
		for pi, p := range pairs {
			a, b := query(long, p), query(fresh, p)
			if a != b {
				mism = append(mism, "phase"+itoa(ph)+":pair"+itoa(pi)+":"+p.id+"/"+itoa(p.size)+":long="+a+"=>fresh="+b)
			}
		}
	}
	_ = spin
	zaS := "0"
	if za {
		zaS = "1"
	}
	out := "-"
	if len(mism) > 0 {
		if len(mism) > 3 {
			mism = mism[:3]
		}
		out = strings.Join(mism, " ")
	}
	e.emit("C13.conc", itoa(round), zaS, itoa(n), itoa(phases), out)
}

func runC13(e *env) {
	nH, nP, nC := 2500, 800, 24
	if !e.quick {
		nH, nP, nC = 40000, 8000, 400
	}
	r := newRng(e.seed, 1)
	for i := 0; i < nH; i++ {
		c13Hist(e, r)
	}
	r = newRng(e.seed, 2)
	for i := 0; i < nP; i++ {
		c13PHist(e, r)
	}
	r = newRng(e.seed, 3)
	for i := 0; i < nC; i++ {
		c13Conc(e, r, i)
	}
	// the lock sections of the shuffle-shard queries one by one (c13_il.go)
	nI := 900
	if !e.quick {
		nI = 15000
	}
	r = newRng(e.seed, 4)
	for i := 0; i < nI; i++ {
		c13IHist(e, r)
	}
}

// c13Tables prints Lean definitions read from the running code / its source:
// the InstanceDesc proto fields (reflection), the InstanceDesc fields mentioned in Desc.RingCompare
// and the fields copied by the cached-subring refresh loops (go/ast on $VERIF_REPO/ring).
func c13Tables(e *env) {
	repo := os.Getenv("VERIF_REPO")
	if repo == "" {
		repo = "/repo"
	}
	var proto []string
	t := reflect.TypeOf(ring.InstanceDesc{})
	for i := 0; i < t.NumField(); i++ {
		if t.Field(i).Tag.Get("protobuf") != "" {
			proto = append(proto, t.Field(i).Name)
		}
	}
	fset := token.NewFileSet()
	fieldSet := map[string]bool{}
	for _, n := range proto {
		fieldSet[n] = true
	}
	selectorsIn := func(file, fn string, recvVars map[string]bool, onlyAssignLHS bool) []string {
		f, err := parser.ParseFile(fset, filepath.Join(repo, "ring", file), nil, 0)
		if err != nil {
			fmt.Fprintln(os.Stderr, err)
			os.Exit(1)
		}
		seen := map[string]bool{}
		var out []string
		add := func(x ast.Expr) {
			ast.Inspect(x, func(n ast.Node) bool {
				if s, ok := n.(*ast.SelectorExpr); ok {
					if id, ok := s.X.(*ast.Ident); ok && recvVars[id.Name] && fieldSet[s.Sel.Name] && !seen[s.Sel.Name] {
						seen[s.Sel.Name] = true
						out = append(out, s.Sel.Name)
					}
				}
				return true
			})
		}
		for _, d := range f.Decls {
			fd, ok := d.(*ast.FuncDecl)
			if !ok || fd.Name.Name != fn {
				continue
			}
			ast.Inspect(fd.Body, func(n ast.Node) bool {
				if onlyAssignLHS {
					if as, ok := n.(*ast.AssignStmt); ok {
						for _, l := range as.Lhs {
							add(l)
						}
					}
					return true
				}
				if ex, ok := n.(ast.Expr); ok {
					add(ex)
					return false
				}
				return true
			})
		}
		return out
	}
	compared := selectorsIn("model.go", "RingCompare", map[string]bool{"ing": true, "oing": true}, false)
	refreshed := selectorsIn("ring.go", "getCachedShuffledSubring", map[string]bool{"cachedIng": true}, true)
	refreshedLB := selectorsIn("ring.go", "getCachedShuffledSubringWithLookback", map[string]bool{"cachedIng": true}, true)
	lst := func(xs []string) string {
		q := make([]string, len(xs))
		for i, x := range xs {
			q[i] = strconv.Quote(x)
		}
		return "[" + strings.Join(q, ", ") + "]"
	}
	w := e.w
	fmt.Fprintf(w, "def protoFields : List String := %s\n", lst(proto))
	fmt.Fprintf(w, "def comparedFields : List String := %s\n", lst(compared))
	fmt.Fprintf(w, "def refreshedFields : List String := %s\n", lst(refreshed))
	fmt.Fprintf(w, "def refreshedFieldsLookback : List String := %s\n", lst(refreshedLB))
	// how RingCompare USES every proto field: the real function is run on two one-instance descriptors that
	// differ in exactly that field (E = Equal, S = EqualButStatesAndTimestamps, D = Different)
	base := ring.InstanceDesc{Id: "i0", Addr: "a", Timestamp: 1, State: ring.ACTIVE, Tokens: []uint32{1, 2}, Zone: "z",
		RegisteredTimestamp: 5, ReadOnlyUpdatedTimestamp: 7, ReadOnly: false, Versions: map[uint64]uint64{1: 1}}
	var use []string
	for _, name := range proto {
		mod := base
		mod.Tokens = append([]uint32(nil), base.Tokens...)
		mod.Versions = map[uint64]uint64{1: 1}
		f := reflect.ValueOf(&mod).Elem().FieldByName(name)
		cls := "?"
		ok := true
		switch f.Kind() {
		case reflect.String:
			f.SetString(f.String() + "x")
		case reflect.Int64, reflect.Int32, reflect.Int:
			f.SetInt(f.Int() + 1)
		case reflect.Bool:
			f.SetBool(!f.Bool())
		case reflect.Slice:
			if f.Type().Elem().Kind() == reflect.Uint32 {
				f.Set(reflect.ValueOf([]uint32{1, 3}))
			} else {
				ok = false
			}
		case reflect.Map:
			f.Set(reflect.ValueOf(map[uint64]uint64{1: 2}))
		default:
			ok = false
		}
		if ok {
			a := &ring.Desc{Ingesters: map[string]ring.InstanceDesc{"i0": base}}
			b := &ring.Desc{Ingesters: map[string]ring.InstanceDesc{"i0": mod}}
			cls = c13CmpCode(a.RingCompare(b))
		}
		use = append(use, "("+strconv.Quote(name)+", "+strconv.Quote(cls)+")")
	}
	fmt.Fprintf(w, "def fieldUse : List (String × String) := [%s]\n", strings.Join(use, ", "))
}
