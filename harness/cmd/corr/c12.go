package main

// C12 — shuffle shards (Ring.ShuffleShard / ShuffleShardWithLookback, PartitionRing.ShuffleShard /
// ShuffleShardWithLookback). Case kinds (see lean/Oracle/C12.lean):
//   C12.shard  za desc ident streams s s2 period now op rp | A B C D E
//   C12.hist   za ident streams s period snaps             | As Ls
//   C12.pshard parts ident stream s s2 period now op       | A B C E
//   C12.phist  ident stream s period snaps                 | As Ls
// The math/rand streams are recorded from Go (rand.New(rand.NewSource(ShuffleShardSeed(id, zone)))) and
// are part of the case, so the model never re-implements md5 or Go's generator.

import (
	"math"
	"math/rand"
	"sort"
	"strconv"
	"strings"
	"time"

	"github.com/grafana/dskit/ring"
	shardUtil "github.com/grafana/dskit/ring/shard"
)

func init() { register("C12", runC12) }

const c12Now = int64(1700000000)

// c12Future is a timestamp later than any reader's time.Now() (2100-01-01).
const c12Future = int64(4102444800)

func c12Stream(ident, zone string, k int) string {
	rnd := rand.New(rand.NewSource(shardUtil.ShuffleShardSeed(ident, zone)))
	o := make([]string, k)
	for i := range o {
		o[i] = strconv.FormatUint(uint64(rnd.Uint32()), 10)
	}
	return strings.Join(o, ",")
}

func c12Streams(ident string, zones map[string]bool, k int) string {
	zs := []string{}
	zones[""] = true
	for z := range zones {
		zs = append(zs, z)
	}
	sort.Strings(zs)
	ps := make([]string, len(zs))
	for i, z := range zs {
		ps[i] = showStr(z) + "=" + c12Stream(ident, z, k)
	}
	return strings.Join(ps, "|")
}

func c12Ring(za bool, d *ring.Desc) *ring.Ring {
	cfg := ring.Config{ReplicationFactor: 1, ZoneAwarenessEnabled: za, HeartbeatTimeout: time.Hour}
	r, err := ring.VerifNewRing(cfg, cloneDesc(d), nil)
	if err != nil {
		panic(err)
	}
	return r
}

func c12Members(rr ring.ReadRing) string {
	ids := ring.VerifSubringIDs(rr)
	if len(ids) == 0 {
		return "-"
	}
	sort.Strings(ids)
	o := make([]string, len(ids))
	for i, s := range ids {
		o[i] = showStr(s)
	}
	return strings.Join(o, ",")
}

func c12Zones(ds ...*ring.Desc) map[string]bool {
	m := map[string]bool{}
	for _, d := range ds {
		for _, i := range d.Ingesters {
			m[i.Zone] = true
		}
	}
	return m
}

func c12SortedIDs(d *ring.Desc) []string {
	ids := make([]string, 0, len(d.Ingesters))
	for id := range d.Ingesters {
		ids = append(ids, id)
	}
	sort.Strings(ids)
	return ids
}

type c12Gen struct {
	r      *rng
	used   map[uint32]bool
	nextID int
}

// newInst creates an instance with globally unique tokens.
func (g *c12Gen) newInst(zone string, maxTok int, small bool, tokenless bool) ring.InstanceDesc {
	r := g.r
	id := "i" + strconv.Itoa(g.nextID)
	g.nextID++
	i := ring.InstanceDesc{Id: id, Addr: "a" + id, Zone: zone, State: pick(r, allStates), Timestamp: c12Now - int64(r.intn(100))}
	nt := 1 + r.intn(maxTok)
	if tokenless {
		nt = 0
	}
	for j := 0; j < nt; j++ {
		for tries := 0; tries < 60; tries++ {
			var t uint32
			if small && r.chance(3, 4) {
				t = pick(r, boundaryTokens)
			} else if small {
				t = uint32(r.intn(64))
			} else {
				t = r.u32()
			}
			if g.used[t] {
				continue
			}
			g.used[t] = true
			i.Tokens = append(i.Tokens, t)
			break
		}
	}
	if len(i.Tokens) == 0 && !tokenless {
		for t := uint32(1000); ; t++ {
			if !g.used[t] {
				g.used[t] = true
				i.Tokens = append(i.Tokens, t)
				break
			}
		}
	}
	sort.Slice(i.Tokens, func(a, b int) bool { return i.Tokens[a] < i.Tokens[b] })
	return i
}

var c12ZoneNames = []string{"a", "b", "c", "d"}

func c12Sizes(r *rng, n int) (int, int) {
	var s int
	switch r.intn(12) {
	case 0:
		s = -r.intn(2) // 0 or -1
	case 1:
		s = n
	case 2:
		s = n + 1
	case 3:
		s = n - 1
	case 4:
		s = n + 2 + r.intn(10)
	case 5:
		s = pick(r, []int{1 << 40, math.MaxInt, math.MaxInt - 1, math.MaxInt - 100, math.MaxInt - 511, math.MaxInt - 512, 1 << 53, 1<<53 + 1})
	case 6, 7:
		s = 1 + r.intn(n+1)
	default:
		s = 1 + r.intn((n+1)/2)
	}
	var s2 int
	switch r.intn(6) {
	case 0:
		s2 = s + 1 + r.intn(6)
	case 1:
		s2 = 1 + r.intn(n+3)
	case 2:
		s2 = pick(r, []int{0, math.MaxInt, n, n + 1})
	default:
		s2 = s + 1
	}
	if s == math.MaxInt && s2 == s+1 { // overflow
		s2 = math.MaxInt
	}
	return s, s2
}

func c12Shard(e *env, r *rng, big bool, tokenless bool) {
	za := r.chance(3, 4)
	g := &c12Gen{r: r, used: map[uint32]bool{}}
	nz := 1 + r.intn(4)
	zones := append([]string{}, c12ZoneNames[:nz]...)
	if r.chance(1, 10) {
		zones[0] = ""
	}
	n := 1 + r.intn(12)
	maxTok := 1 + r.intn(4)
	if big {
		n = 1 + r.intn(40)
		maxTok = pick(r, []int{1, 3, 16, 128})
	}
	small := r.chance(1, 3)
	now := c12Now + int64(r.intn(1000))
	period := pick(r, []int64{0, 5, 60, 3600, 3600})
	til := now - period
	roP := pick(r, []int{0, 0, 1, 4})
	d := ring.NewDesc()
	near := func() int64 { return til + int64(r.intn(5)) - 2 }
	// in some rings instances carry a ReadOnlyUpdatedTimestamp from a clock ahead of every reader (year
	// 2100): the plain shard is computed with the real time.Now(), so this is the deterministic way to have
	// a read-only switch "at or after the second in which the reader computes the shard"
	skew := r.chance(1, 5)
	stamp := func(i *ring.InstanceDesc) {
		switch r.intn(8) {
		case 0:
			i.RegisteredTimestamp = 0
		case 1, 2:
			i.RegisteredTimestamp = near()
		case 3:
			i.RegisteredTimestamp = now - int64(r.intn(10))
		default:
			i.RegisteredTimestamp = til - 1000 - int64(r.intn(100000))
		}
		if r.intn(8) < roP {
			i.ReadOnly = true
		}
		switch r.intn(6) {
		case 0, 1:
			i.ReadOnlyUpdatedTimestamp = near()
		case 2:
			i.ReadOnlyUpdatedTimestamp = til - 500
		case 3:
			if i.ReadOnly {
				i.ReadOnlyUpdatedTimestamp = now - int64(r.intn(3))
			}
		}
		if skew && r.chance(1, 2) {
			i.ReadOnlyUpdatedTimestamp = c12Future
		}
	}
	for k := 0; k < n; k++ {
		i := g.newInst(pick(r, zones), maxTok, small, tokenless && r.chance(1, 3))
		stamp(&i)
		d.Ingesters[i.Id] = i
	}
	// all instances recent (exercises the `return r` fast path) now and then
	if period > 0 && r.chance(1, 12) {
		for id, i := range d.Ingesters {
			i.RegisteredTimestamp = til + int64(r.intn(50))
			d.Ingesters[id] = i
		}
	}
	ids := c12SortedIDs(d)
	// the related ring r'
	d2 := cloneDesc(d)
	op := "none"
	switch r.intn(7) {
	case 0, 1:
		if len(ids) > 1 || r.chance(1, 4) {
			x := pick(r, ids)
			delete(d2.Ingesters, x)
			op = "rm:" + showStr(x)
		}
	case 2, 3:
		z := pick(r, zones)
		if r.chance(1, 8) {
			z = "e" // a brand-new zone
		}
		i := g.newInst(z, maxTok, small, tokenless && r.chance(1, 3))
		stamp(&i)
		d2.Ingesters[i.Id] = i
		op = "add:" + encInst(i.Id, i)
	case 4, 5:
		x := pick(r, ids)
		i := d2.Ingesters[x]
		i.ReadOnly = !i.ReadOnly
		i.ReadOnlyUpdatedTimestamp = now
		d2.Ingesters[x] = i
		ro := "0"
		if i.ReadOnly {
			ro = "1"
		}
		op = "ro:" + showStr(x) + ":" + ro + ":" + strconv.FormatInt(now, 10)
	}
	// rp: same content, other State / Timestamp / Addr / Versions
	rp := cloneDesc(d)
	for id, i := range rp.Ingesters {
		i.State = pick(r, allStates)
		i.Timestamp = c12Now - int64(r.intn(100000))
		if r.chance(1, 2) {
			i.Addr = "b" + id
		}
		if r.chance(1, 2) {
			i.Versions = map[uint64]uint64{uint64(r.intn(3)): uint64(r.intn(5))}
		}
		rp.Ingesters[id] = i
	}
	s, s2 := c12Sizes(r, n)
	ident := "tenant-" + strconv.Itoa(r.intn(1000))
	if r.chance(1, 20) {
		ident = ""
	}
	streams := c12Streams(ident, c12Zones(d, d2), n+5)

	nowT := time.Unix(now, 0)
	R := c12Ring(za, d)
	A := c12Members(R.ShuffleShard(ident, s))
	B := c12Members(R.ShuffleShard(ident, s2))
	C := c12Members(c12Ring(za, d2).ShuffleShard(ident, s))
	D := c12Members(c12Ring(za, rp).ShuffleShard(ident, s))
	E := c12Members(c12Ring(za, d).ShuffleShardWithLookback(ident, s, time.Duration(period)*time.Second, nowT))
	zaS := "0"
	if za {
		zaS = "1"
	}
	e.emit("C12.shard", zaS, encDesc(d), hx(ident), streams, itoa(s), itoa(s2), strconv.FormatInt(period, 10), strconv.FormatInt(now, 10), op, encDesc(rp),
		A, B, C, D, E)
}

// c12Hist: a history of joins, leaves and read-only switches, one snapshot per event time; at every
// snapshot the plain shard (size s_t ≤ s) and the look-back shard (size s, window `period`) are queried.
func c12Hist(e *env, r *rng, churnZones bool) {
	za := r.chance(3, 4)
	g := &c12Gen{r: r, used: map[uint32]bool{}}
	nz := 1 + r.intn(3)
	zones := append([]string{}, c12ZoneNames[:nz]...)
	n := 2 + r.intn(10)
	maxTok := 1 + r.intn(4)
	t := c12Now
	period := pick(r, []int64{1, 2, 3, 5, 10, 1000})
	d := ring.NewDesc()
	for k := 0; k < n; k++ {
		z := zones[k%len(zones)]
		if churnZones {
			z = pick(r, zones)
		}
		i := g.newInst(z, maxTok, false, false)
		i.RegisteredTimestamp = t - 10000 - int64(r.intn(1000))
		if r.chance(1, 8) {
			i.ReadOnly = true
			i.ReadOnlyUpdatedTimestamp = t - 5000
		}
		d.Ingesters[i.Id] = i
	}
	s := 1 + r.intn(n+1)
	if r.chance(1, 15) {
		s = 0
	}
	ident := "tenant-" + strconv.Itoa(r.intn(1000))
	steps := 3 + r.intn(10)
	type snap struct {
		t  int64
		sz int
		d  *ring.Desc
	}
	var snaps []snap
	var left []ring.InstanceDesc
	maxN := n
	for k := 0; k < steps; k++ {
		if k > 0 {
			t += int64(1 + r.intn(3))
			if r.chance(1, 10) {
				t += period
			}
			nev := 1 + r.intn(2)
			for ev := 0; ev < nev; ev++ {
				ids := c12SortedIDs(d)
				switch r.intn(6) {
				case 0, 1: // join
					z := pick(r, zones)
					if churnZones && r.chance(1, 3) {
						z = pick(r, c12ZoneNames)
					}
					var i ring.InstanceDesc
					if len(left) > 0 && r.chance(1, 3) { // a previously seen instance comes back
						i = left[len(left)-1]
						left = left[:len(left)-1]
					} else {
						i = g.newInst(z, maxTok, false, false)
					}
					i.RegisteredTimestamp = t
					d.Ingesters[i.Id] = i
				case 2, 3: // leave
					if len(ids) > 1 {
						x := pick(r, ids)
						zoneLeft := 0
						for _, o := range d.Ingesters {
							if o.Zone == d.Ingesters[x].Zone {
								zoneLeft++
							}
						}
						if zoneLeft > 1 || churnZones {
							left = append(left, d.Ingesters[x])
							delete(d.Ingesters, x)
						}
					}
				default: // read-only switch
					x := pick(r, ids)
					i := d.Ingesters[x]
					i.ReadOnly = !i.ReadOnly
					i.ReadOnlyUpdatedTimestamp = t
					d.Ingesters[x] = i
				}
			}
		}
		sz := s
		if s > 1 && r.chance(1, 4) {
			sz = 1 + r.intn(s)
		}
		if len(d.Ingesters) > maxN {
			maxN = len(d.Ingesters)
		}
		snaps = append(snaps, snap{t, sz, cloneDesc(d)})
	}
	zs := map[string]bool{}
	for _, z := range c12ZoneNames {
		zs[z] = true
	}
	streams := c12Streams(ident, zs, maxN+5)
	var sn, as, ls []string
	for _, x := range snaps {
		R := c12Ring(za, x.d)
		as = append(as, c12Members(R.ShuffleShard(ident, x.sz)))
		ls = append(ls, c12Members(c12Ring(za, x.d).ShuffleShardWithLookback(ident, s, time.Duration(period)*time.Second, time.Unix(x.t, 0))))
		sn = append(sn, strconv.FormatInt(x.t, 10)+"@"+itoa(x.sz)+"@"+encDesc(x.d))
	}
	zaS := "0"
	if za {
		zaS = "1"
	}
	e.emit("C12.hist", zaS, hx(ident), streams, itoa(s), strconv.FormatInt(period, 10), strings.Join(sn, "|"), strings.Join(as, "|"), strings.Join(ls, "|"))
}

// ---- partition ring ----

var c12PStateCode = map[ring.PartitionState]string{ring.PartitionUnknown: "U", ring.PartitionPending: "P", ring.PartitionActive: "A", ring.PartitionInactive: "I", ring.PartitionDeleted: "D"}

func c12EncPart(p ring.PartitionDesc) string {
	return strings.Join([]string{strconv.Itoa(int(p.Id)), c12PStateCode[p.State], strconv.FormatInt(p.StateTimestamp, 10), u32s(p.Tokens)}, "/")
}

func c12EncParts(d *ring.PartitionRingDesc) string {
	if len(d.Partitions) == 0 {
		return "-"
	}
	ids := make([]int, 0, len(d.Partitions))
	for id := range d.Partitions {
		ids = append(ids, int(id))
	}
	sort.Ints(ids)
	ps := make([]string, len(ids))
	for i, id := range ids {
		ps[i] = c12EncPart(d.Partitions[int32(id)])
	}
	return strings.Join(ps, ";")
}

func c12CloneParts(d *ring.PartitionRingDesc) *ring.PartitionRingDesc {
	o := ring.NewPartitionRingDesc()
	for id, p := range d.Partitions {
		p.Tokens = append([]uint32(nil), p.Tokens...)
		o.Partitions[id] = p
	}
	for id, ow := range d.Owners {
		o.Owners[id] = ow
	}
	return o
}

func c12PIDs(pr *ring.PartitionRing, err error) string {
	if err != nil {
		return "err"
	}
	ids := pr.PartitionIDs()
	if len(ids) == 0 {
		return "-"
	}
	o := make([]string, len(ids))
	for i, id := range ids {
		o[i] = strconv.Itoa(int(id))
	}
	return strings.Join(o, ",")
}

func c12PRing(d *ring.PartitionRingDesc) *ring.PartitionRing {
	pr, err := ring.NewPartitionRing(*c12CloneParts(d))
	if err != nil {
		panic(err)
	}
	return pr
}

func (g *c12Gen) newPart(id int32, maxTok int, small bool) ring.PartitionDesc {
	i := g.newInst("", maxTok, small, false)
	return ring.PartitionDesc{Id: id, Tokens: i.Tokens}
}

var c12PStates = []ring.PartitionState{ring.PartitionActive, ring.PartitionActive, ring.PartitionActive, ring.PartitionInactive, ring.PartitionPending, ring.PartitionActive, ring.PartitionInactive, ring.PartitionDeleted, ring.PartitionUnknown}

func c12PShard(e *env, r *rng, big bool) {
	g := &c12Gen{r: r, used: map[uint32]bool{}}
	n := 1 + r.intn(8)
	maxTok := 1 + r.intn(4)
	if big {
		n = 1 + r.intn(30)
		maxTok = pick(r, []int{1, 3, 16, 128})
	}
	small := r.chance(1, 3)
	now := c12Now + int64(r.intn(1000))
	period := pick(r, []int64{0, 5, 60, 3600})
	til := now - period
	d := ring.NewPartitionRingDesc()
	nStates := 7
	if r.chance(1, 5) {
		nStates = len(c12PStates)
	}
	stamp := func(p *ring.PartitionDesc) {
		p.State = c12PStates[r.intn(nStates)]
		switch r.intn(4) {
		case 0:
			p.StateTimestamp = til + int64(r.intn(5)) - 2
		case 1:
			p.StateTimestamp = now - int64(r.intn(3))
		default:
			p.StateTimestamp = til - 1000 - int64(r.intn(1000))
		}
	}
	nextID := int32(0)
	for k := 0; k < n; k++ {
		p := g.newPart(nextID, maxTok, small)
		nextID += int32(1 + r.intn(2))
		stamp(&p)
		d.Partitions[p.Id] = p
	}
	ids := []int32{}
	for id := range d.Partitions {
		ids = append(ids, id)
	}
	sort.Slice(ids, func(a, b int) bool { return ids[a] < ids[b] })
	d2 := c12CloneParts(d)
	op := "none"
	switch r.intn(7) {
	case 0, 1:
		if len(ids) > 1 || r.chance(1, 4) {
			x := pick(r, ids)
			delete(d2.Partitions, x)
			op = "rm:" + strconv.Itoa(int(x))
		}
	case 2, 3:
		p := g.newPart(nextID, maxTok, small)
		stamp(&p)
		if r.chance(2, 3) {
			p.State = ring.PartitionActive
		}
		d2.Partitions[p.Id] = p
		op = "add:" + c12EncPart(p)
	case 4, 5:
		x := pick(r, ids)
		p := d2.Partitions[x]
		if p.State == ring.PartitionActive {
			p.State = ring.PartitionInactive
		} else {
			p.State = ring.PartitionActive
		}
		p.StateTimestamp = now
		d2.Partitions[x] = p
		op = "st:" + strconv.Itoa(int(x)) + ":" + c12PStateCode[p.State] + ":" + strconv.FormatInt(now, 10)
	}
	s, s2 := c12Sizes(r, n)
	ident := "tenant-" + strconv.Itoa(r.intn(1000))
	stream := c12Stream(ident, "", n+6)
	nowT := time.Unix(now, 0)
	R := c12PRing(d)
	A := c12PIDs(R.ShuffleShard(ident, s))
	B := c12PIDs(R.ShuffleShard(ident, s2))
	C := c12PIDs(c12PRing(d2).ShuffleShard(ident, s))
	E := c12PIDs(c12PRing(d).ShuffleShardWithLookback(ident, s, time.Duration(period)*time.Second, nowT))
	e.emit("C12.pshard", c12EncParts(d), hx(ident), stream, itoa(s), itoa(s2), strconv.FormatInt(period, 10), strconv.FormatInt(now, 10), op, A, B, C, E)
}

func c12PHist(e *env, r *rng) {
	g := &c12Gen{r: r, used: map[uint32]bool{}}
	n := 2 + r.intn(10)
	maxTok := 1 + r.intn(4)
	t := c12Now
	period := pick(r, []int64{1, 2, 3, 5, 10, 1000})
	d := ring.NewPartitionRingDesc()
	nextID := int32(0)
	for k := 0; k < n; k++ {
		p := g.newPart(nextID, maxTok, false)
		nextID++
		p.State = pick(r, []ring.PartitionState{ring.PartitionActive, ring.PartitionActive, ring.PartitionActive, ring.PartitionInactive, ring.PartitionPending})
		p.StateTimestamp = t - 10000 - int64(r.intn(1000))
		d.Partitions[p.Id] = p
	}
	s := 1 + r.intn(n+1)
	if r.chance(1, 15) {
		s = 0
	}
	ident := "tenant-" + strconv.Itoa(r.intn(1000))
	steps := 3 + r.intn(10)
	var sn, as, ls []string
	maxN := n
	for k := 0; k < steps; k++ {
		if k > 0 {
			t += int64(1 + r.intn(3))
			if r.chance(1, 10) {
				t += period
			}
			nev := 1 + r.intn(2)
			for ev := 0; ev < nev; ev++ {
				ids := []int32{}
				for id := range d.Partitions {
					ids = append(ids, id)
				}
				sort.Slice(ids, func(a, b int) bool { return ids[a] < ids[b] })
				switch r.intn(6) {
				case 0: // new partition (pending, sometimes directly active)
					p := g.newPart(nextID, maxTok, false)
					nextID++
					p.State = pick(r, []ring.PartitionState{ring.PartitionPending, ring.PartitionPending, ring.PartitionActive})
					p.StateTimestamp = t
					d.Partitions[p.Id] = p
				case 1: // removal
					if len(ids) > 1 {
						delete(d.Partitions, pick(r, ids))
					}
				default: // legal state change
					x := pick(r, ids)
					p := d.Partitions[x]
					switch p.State {
					case ring.PartitionPending:
						p.State = pick(r, []ring.PartitionState{ring.PartitionActive, ring.PartitionActive, ring.PartitionInactive})
					case ring.PartitionActive:
						p.State = ring.PartitionInactive
					case ring.PartitionInactive:
						p.State = ring.PartitionActive
					}
					p.StateTimestamp = t
					d.Partitions[x] = p
				}
			}
		}
		if len(d.Partitions) > maxN {
			maxN = len(d.Partitions)
		}
		sz := s
		if s > 1 && r.chance(1, 4) {
			sz = 1 + r.intn(s)
		}
		as = append(as, c12PIDs(c12PRing(d).ShuffleShard(ident, sz)))
		ls = append(ls, c12PIDs(c12PRing(d).ShuffleShardWithLookback(ident, s, time.Duration(period)*time.Second, time.Unix(t, 0))))
		sn = append(sn, strconv.FormatInt(t, 10)+"@"+itoa(sz)+"@"+c12EncParts(d))
	}
	stream := c12Stream(ident, "", maxN+8)
	e.emit("C12.phist", hx(ident), stream, itoa(s), strconv.FormatInt(period, 10), strings.Join(sn, "|"), strings.Join(as, "|"), strings.Join(ls, "|"))
}

func runC12(e *env) {
	nShard, nBig, nTokless, nHist, nHistZ, nP, nPBig, nPH := 4000, 60, 300, 500, 100, 1500, 30, 400
	if !e.quick {
		nShard, nBig, nTokless, nHist, nHistZ, nP, nPBig, nPH = 60000, 1500, 4000, 8000, 1500, 20000, 600, 6000
	}
	r := newRng(e.seed, 1)
	for i := 0; i < nShard; i++ {
		c12Shard(e, r, false, false)
	}
	r = newRng(e.seed, 2)
	for i := 0; i < nBig; i++ {
		c12Shard(e, r, true, false)
	}
	r = newRng(e.seed, 3)
	for i := 0; i < nTokless; i++ {
		c12Shard(e, r, false, true)
	}
	r = newRng(e.seed, 4)
	for i := 0; i < nHist; i++ {
		c12Hist(e, r, false)
	}
	r = newRng(e.seed, 5)
	for i := 0; i < nHistZ; i++ {
		c12Hist(e, r, true)
	}
	r = newRng(e.seed, 6)
	for i := 0; i < nP; i++ {
		c12PShard(e, r, false)
	}
	r = newRng(e.seed, 7)
	for i := 0; i < nPBig; i++ {
		c12PShard(e, r, true)
	}
	r = newRng(e.seed, 8)
	for i := 0; i < nPH; i++ {
		c12PHist(e, r)
	}
}
