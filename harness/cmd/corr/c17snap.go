package main

// C17.snap - the manager's accessor ServicesByState() hands out SNAPSHOTS: a caller may keep one across
// later transitions and may write into / append to the slices it got; the manager never changes a
// snapshot it has returned and its own answers never depend on what the caller does with one.
//
//   C17.snap <n> <actions>   <observation after each action, '|' separated>
//
// n idle services (NewIdleService) under one real Manager; the actions run one after another, each is
// driven to quiescence (the service reached its state AND a fresh ServicesByState() lists it there):
//   S<i>  StartAsync service i, wait Running          T<i>  StopAsync service i, wait Terminated
//   K     keep a ServicesByState() snapshot (its content at that moment is recorded)
//   A     append a foreign service to every list of every kept snapshot (caller-owned slices)
//   O     overwrite the first entry of every non-empty list of every kept snapshot with a foreign service
// observation = <byState lists in the manager's order, states N;S;R;P;T;F>~<healthy><stopped>~<service states>~<one
// char per kept snapshot: 1 unchanged since taken, 0 changed, w written by the caller>

import (
	"context"
	"sort"
	"strconv"
	"strings"
	"time"

	"github.com/grafana/dskit/services"
)

var c17SnapStates = []services.State{services.New, services.Starting, services.Running, services.Stopping, services.Terminated, services.Failed}

type c17snap struct {
	svcs    []services.Service
	mgr     *services.Manager
	foreign services.Service
	kept    []map[services.State][]services.Service
	keptAt  []string
	written []bool
	stuck   bool
}

func (c *c17snap) idx(s services.Service) string {
	for i, x := range c.svcs {
		if x == s {
			return strconv.Itoa(i)
		}
	}
	return "x"
}

// render lists the services of every state in the order of the slice; absent and empty lists are "-"
func (c *c17snap) render(by map[services.State][]services.Service) string {
	parts := make([]string, len(c17SnapStates))
	for k, st := range c17SnapStates {
		var ix []string
		for _, s := range by[st] {
			ix = append(ix, c.idx(s))
		}
		if len(ix) == 0 {
			parts[k] = "-"
		} else {
			parts[k] = strings.Join(ix, ",")
		}
	}
	return strings.Join(parts, ";")
}

func (c *c17snap) listed(i int, st services.State) bool {
	for _, s := range c.mgr.ServicesByState()[st] {
		if s == c.svcs[i] {
			return true
		}
	}
	return false
}

func (c *c17snap) waitListed(i int, st services.State) {
	deadline := time.Now().Add(c17Watchdog)
	for !c.listed(i, st) {
		if time.Now().After(deadline) {
			c.stuck = true
			return
		}
		time.Sleep(50 * time.Microsecond)
	}
}

func (c *c17snap) observe() string {
	h, z := "0", "0"
	if c.mgr.IsHealthy() {
		h = "1"
	}
	if c.mgr.IsStopped() {
		z = "1"
	}
	sts := ""
	for _, s := range c.svcs {
		sts += c17StateCode(s.State())
	}
	integ := ""
	for k := range c.kept {
		switch {
		case c.written[k]:
			integ += "w"
		case c.render(c.kept[k]) == c.keptAt[k]:
			integ += "1"
		default:
			integ += "0"
		}
	}
	if integ == "" {
		integ = "-"
	}
	flag := ""
	if c.stuck {
		flag = "~stuck"
	}
	return c.render(c.mgr.ServicesByState()) + "~" + h + z + "~" + sts + "~" + integ + flag
}

func c17SnapCase(e *env, n int, acts []string) {
	end := e.begin("C17.snap\t" + strconv.Itoa(n) + "\t" + strings.Join(acts, ","))
	defer end()
	c := &c17snap{foreign: services.NewIdleService(nil, nil)}
	for i := 0; i < n; i++ {
		c.svcs = append(c.svcs, services.NewIdleService(nil, nil))
	}
	mgr, err := services.NewManager(c.svcs...)
	if err != nil {
		return
	}
	c.mgr = mgr
	ctx, cancel := context.WithTimeout(context.Background(), c17Watchdog)
	defer cancel()
	var obs []string
	for _, a := range acts {
		switch a[0] {
		case 'S':
			i, _ := strconv.Atoi(a[1:])
			if c.svcs[i].StartAsync(context.Background()) == nil {
				_ = c.svcs[i].AwaitRunning(ctx)
				c.waitListed(i, services.Running)
			}
		case 'T':
			i, _ := strconv.Atoi(a[1:])
			c.svcs[i].StopAsync()
			_ = c.svcs[i].AwaitTerminated(ctx)
			c.waitListed(i, services.Terminated)
		case 'K':
			by := c.mgr.ServicesByState()
			c.kept = append(c.kept, by)
			c.keptAt = append(c.keptAt, c.render(by))
			c.written = append(c.written, false)
		case 'A':
			for k, by := range c.kept {
				for st, l := range by {
					by[st] = append(l, c.foreign)
				}
				c.written[k] = true
			}
		case 'O':
			for k, by := range c.kept {
				for _, l := range by {
					if len(l) > 0 {
						l[0] = c.foreign
					}
				}
				c.written[k] = true
			}
		}
		obs = append(obs, c.observe())
	}
	// leave nothing running
	for _, s := range c.svcs {
		s.StopAsync()
	}
	e.emit("C17.snap", strconv.Itoa(n), strings.Join(acts, ","), strings.Join(obs, "|"))
}

// c17SnapRandom: a random applicable action sequence; starts first (so that lists fill up and get spare
// capacity), snapshots and caller writes in between, stops in random order.
func c17SnapRandom(r *rng, n, steps int) []string {
	state := make([]int, n) // 0 new, 1 running, 2 terminated
	var acts []string
	kept := 0
	for len(acts) < steps {
		switch r.intn(10) {
		case 0, 1, 2, 3:
			var cand []int
			for i, s := range state {
				if s == 0 {
					cand = append(cand, i)
				}
			}
			if len(cand) == 0 {
				continue
			}
			i := cand[r.intn(len(cand))]
			state[i] = 1
			acts = append(acts, "S"+strconv.Itoa(i))
		case 4, 5:
			var cand []int
			for i, s := range state {
				if s == 1 || (s == 0 && r.intn(6) == 0) {
					cand = append(cand, i)
				}
			}
			if len(cand) == 0 {
				continue
			}
			i := cand[r.intn(len(cand))]
			state[i] = 2
			acts = append(acts, "T"+strconv.Itoa(i))
		case 6, 7:
			kept++
			acts = append(acts, "K")
		case 8:
			if kept > 0 {
				acts = append(acts, "A")
			}
		case 9:
			if kept > 0 && r.intn(3) == 0 {
				acts = append(acts, "O")
			}
		}
		done := true
		for _, s := range state {
			if s != 2 {
				done = false
			}
		}
		if done {
			break
		}
	}
	return acts
}

func runC17Snap(e *env) {
	// fixed scenarios: a snapshot held across the departure of a service that is not last in its list;
	// a snapshot with spare capacity, one more service running, the caller appends, that service stops
	fixed := []struct {
		n    int
		acts string
	}{
		{3, "S0,S2,S1,K,T0,T2,T1"},
		{3, "S0,S1,S2,K,T1,K,T0,T2"},
		{4, "S0,S1,S2,K,S3,A,T3,T0,T1,T2"},
		{5, "S0,S1,S2,K,S3,A,T3,S4,T0,T1,T2,T4"},
		{4, "K,S0,S1,S2,S3,K,O,T2,T0,T3,T1"},
		{2, "K,T0,S1,K,T1"},
	}
	for k, f := range fixed {
		c17SnapCase(e, f.n, strings.Split(f.acts, ","))
		if k == 1 {
			// the two read-only scenarios are on disk before any caller writes into a snapshot
			e.mu.Lock()
			e.w.Flush()
			e.mu.Unlock()
		}
	}
	// every order of starting 4 services with a snapshot after the third start, an append after the fourth,
	// then the fourth stops first
	perm := []int{0, 1, 2, 3}
	var rec func(k int)
	rec = func(k int) {
		if k == len(perm) {
			var acts []string
			for j, p := range perm {
				acts = append(acts, "S"+strconv.Itoa(p))
				if j == 2 {
					acts = append(acts, "K")
				}
			}
			acts = append(acts, "A", "T"+strconv.Itoa(perm[3]), "K", "T"+strconv.Itoa(perm[0]), "T"+strconv.Itoa(perm[1]), "T"+strconv.Itoa(perm[2]))
			c17SnapCase(e, 4, acts)
			return
		}
		for j := k; j < len(perm); j++ {
			perm[k], perm[j] = perm[j], perm[k]
			rec(k + 1)
			perm[k], perm[j] = perm[j], perm[k]
		}
	}
	rec(0)
	r := newRng(e.seed, 31)
	n := 400 * e.scale
	seen := map[string]bool{}
	for i := 0; i < n; i++ {
		ns := 2 + r.intn(5)
		acts := c17SnapRandom(r, ns, 6+r.intn(12))
		key := strconv.Itoa(ns) + strings.Join(acts, ",")
		if seen[key] || len(acts) == 0 {
			continue
		}
		seen[key] = true
		c17SnapCase(e, ns, acts)
	}
	_ = sort.Ints
}
