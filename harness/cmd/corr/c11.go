package main

// C11 — quorum reads (ring.DoUntilQuorum, DoUntilQuorumWithoutSuccessfulContextCancellation,
// DoMultiUntilQuorumWithoutSuccessfulContextCancellation, ReplicationSet.Do).
//
// The real functions are driven with gated callbacks. The driver performs ONE action at a time
// (launch the call, let one callback return its scripted outcome, cancel the caller's context,
// wait for a hedging tick, let a callback call its cancel function) and then waits until the whole
// process is quiescent (every other goroutine parked; see c11Quiesce) before it records what the
// action caused: which callbacks were started, which results were handed to the cleanup callback,
// whether the call returned (and what), and the state of every started call's context.
// The observation is that list of windows; the Lean oracle checks that it is a run of the model's
// transition system (diff) and evaluates the property statement on it (judge).
//
// Line: C11.q|C11.m|C11.d <opts> <sets> <script> <trace>   (3 input fields, 1 observation field)

import (
	"bytes"
	"context"
	"errors"
	"fmt"
	"os"
	"os/exec"
	"runtime"
	"runtime/metrics"
	"sort"
	"strconv"
	"strings"
	"sync"
	"time"

	"github.com/grafana/dskit/ring"
)

func init() { register("C11", runC11) }

const c11Delay = 2 * time.Millisecond

type c11Set struct {
	zones  []int // zone id of each instance
	maxErr int
	maxUnz int
	za     bool
	// addr: nil = every instance has its own address; otherwise an address label per instance
	// (equal labels = same Addr, -1 = empty Addr). Instances are always identified by their Id
	// (= global index), never by their address.
	addr []int
}

type c11Case struct {
	kind     byte // 'q' DoUntilQuorum, 'w' ...WithoutSuccessfulContextCancellation, 'm' DoMulti..., 'd' ReplicationSet.Do
	min      bool
	hedge    bool // HedgingDelay (q,w,m) / delay (d) set
	delayMs  int  // the delay in ms; 0 = the default c11Delay (2 ms)
	// IsTerminalError: 0 nil; 1 true exactly for the terminal errors (T); 2 constant true (also for a
	// nil error: every error is terminal, a success never is); 3 "not retryable" (true for nil and
	// for T, false for the retryable errors E); 4 "cancelled" (true exactly for cancellation-class
	// errors: outcome C and the errors of failed awaitStart calls; false for nil, E and T)
	term   int
	cancelIn int    // -1: never; k: the caller cancels from inside the k-th call of the IsTerminalError predicate, i.e. while the main loop is handling a result
	pauses [][2]int // {k, ms}: before the k-th arrival wait until ms have passed since the first window closed
	sorter   []int
	sets     []c11Set
	out      []byte // per global instance id: S success, s success + callback already called its cancel func (multi), E error, T terminal error
	prio     []int  // order in which started callbacks are allowed to return
	cancelAt int    // -1: never; k: cancel the caller's context before the k-th arrival
	waits    []int  // wait for a tick before the k-th arrival (hedging / delay only)
}

func (c *c11Case) n() int {
	t := 0
	for _, s := range c.sets {
		t += len(s.zones)
	}
	return t
}

func c11Ints(xs []int) string {
	if len(xs) == 0 {
		return "-"
	}
	o := make([]string, len(xs))
	for i, x := range xs {
		o[i] = itoa(x)
	}
	return strings.Join(o, ",")
}

func b2i(b bool) string {
	if b {
		return "1"
	}
	return "0"
}

func (c *c11Case) fields() (cmd, opts, sets, script string) {
	switch c.kind {
	case 'm':
		cmd = "C11.m"
	case 'd':
		cmd = "C11.d"
	default:
		cmd = "C11.q"
	}
	h := b2i(c.hedge)
	if c.hedge && c.delayMs > 0 {
		h = itoa(c.delayMs)
	}
	opts = fmt.Sprintf("%c m%s h%s t%d z%s", c.kind, b2i(c.min), h, c.term, c11Ints(c.sorter))
	ss := make([]string, len(c.sets))
	for i, s := range c.sets {
		ss[i] = fmt.Sprintf("%s:e%d:u%d:a%s", c11Ints(s.zones), s.maxErr, s.maxUnz, b2i(s.za))
		if s.addr != nil {
			lab := make([]string, len(s.addr))
			for j, a := range s.addr {
				if a < 0 {
					lab[j] = "e"
				} else {
					lab[j] = itoa(a)
				}
			}
			ss[i] += ":d" + strings.Join(lab, ",")
		}
	}
	sets = strings.Join(ss, "|")
	ca := "-"
	if c.cancelAt >= 0 {
		ca = itoa(c.cancelAt)
	}
	script = fmt.Sprintf("o=%s;p=%s;c=%s;w=%s", string(c.out), c11Ints(c.prio), ca, c11Ints(c.waits))
	if c.cancelIn >= 0 {
		script += ";x=" + itoa(c.cancelIn)
	}
	if len(c.pauses) > 0 {
		ps := make([]string, len(c.pauses))
		for i, p := range c.pauses {
			ps[i] = fmt.Sprintf("%d:%d", p[0], p[1])
		}
		script += ";s=" + strings.Join(ps, ",")
	}
	return
}

// ---------------------------------------------------------------------------------------------
// quiescence

var (
	c11Samples = []metrics.Sample{
		{Name: "/sched/goroutines/runnable:goroutines"},
		{Name: "/sched/goroutines/running:goroutines"},
		{Name: "/sched/goroutines/not-in-go:goroutines"},
	}
	c11MetricsOK  = true
	c11StackBuf   = make([]byte, 1<<20)
	c11DumpCount  int
	c11DumpReject int
)

// c11DumpQuiet takes a stop-the-world snapshot of all goroutines and reports whether every
// goroutine except the caller is parked (not running / runnable / in a syscall).
func c11DumpQuiet() bool {
	c11DumpCount++
	n := runtime.Stack(c11StackBuf, true)
	if n >= len(c11StackBuf) {
		return false
	}
	b := c11StackBuf[:n]
	first := true
	for len(b) > 0 {
		i := bytes.IndexByte(b, '\n')
		var line []byte
		if i < 0 {
			line, b = b, nil
		} else {
			line, b = b[:i], b[i+1:]
		}
		if !bytes.HasPrefix(line, []byte("goroutine ")) || !bytes.HasSuffix(line, []byte("]:")) {
			continue
		}
		if first { // the calling goroutine
			first = false
			continue
		}
		j := bytes.IndexByte(line, '[')
		if j < 0 {
			continue
		}
		st := line[j+1:]
		for _, p := range []string{"running", "runnable", "syscall", "preempted", "copystack", "waiting]", "waiting,"} {
			if bytes.HasPrefix(st, []byte(p)) {
				c11DumpReject++
				return false
			}
		}
	}
	return true
}

// c11Quiesce returns once no other goroutine of the process can make progress without a new
// external stimulus (a timer firing or the driver acting). Fast path: the Go 1.26 scheduler
// metrics (taken under the scheduler lock); the verdict is always confirmed by a stop-the-world dump.
func c11Quiesce() bool {
	deadline := time.Now().Add(10 * time.Second)
	for i := 0; ; i++ {
		runtime.Gosched()
		quiet := true
		if c11MetricsOK {
			metrics.Read(c11Samples)
			for _, s := range c11Samples {
				if s.Value.Kind() != metrics.KindUint64 {
					c11MetricsOK = false
				}
			}
			if c11MetricsOK {
				quiet = c11Samples[0].Value.Uint64() == 0 && c11Samples[1].Value.Uint64() <= 1 && c11Samples[2].Value.Uint64() == 0
			}
		}
		if quiet && c11DumpQuiet() {
			return true
		}
		if i > 300 {
			time.Sleep(20 * time.Microsecond)
		}
		if i%32 == 31 && time.Now().After(deadline) {
			return false
		}
	}
}

// ---------------------------------------------------------------------------------------------
// execution of one case

type c11Err struct {
	g    int
	term bool
	canc bool // outcome C: the callback gave up because its context was cancelled (wraps context.Canceled)
}

func (e *c11Err) Error() string { return "instance error " + itoa(e.g) }

// the non-terminal errors are "retryable"
func (e *c11Err) Is(target error) bool {
	return (target == errC11Retryable && !e.term && !e.canc) || (target == context.Canceled && e.canc)
}

var errC11Retryable = errors.New("retryable")

var errC11Done = errors.New("callback done")

type c11Exec struct {
	cs       *c11Case
	mu       sync.Mutex
	ev       []string
	ctxs     []context.Context
	cancels  []context.CancelCauseFunc
	gates    []chan struct{}
	nstart   []int
	seen     []bool // started, as of the last closed window
	released []bool
	doneCall []bool
	trace    []string
	returned bool
	retOK    []int
	t0       time.Time // just before the call is launched
	t1       time.Time // when the first window closed: the call's main loop (and its ticker) exists by then
	delay    time.Duration
	hb       *c11Heartbeat // long delays only: watches for CPU starvation of this process
}

// c11Heartbeat wakes up every 1/16 of the hedging delay and records by how much the wake-ups are
// late. A time.Ticker drops ticks when its receiver cannot run; "k delays have passed, so k ticks
// took effect" is therefore only claimed (token L) while this process was never held up for more
// than a quarter of the delay.
type c11Heartbeat struct {
	stop   chan struct{}
	done   chan struct{}
	mu     sync.Mutex
	maxLag time.Duration
	last   time.Time
	step   time.Duration
}

func c11StartHeartbeat(step time.Duration) *c11Heartbeat {
	h := &c11Heartbeat{stop: make(chan struct{}), done: make(chan struct{}), last: time.Now(), step: step}
	go func() {
		defer close(h.done)
		last := h.last
		for {
			select {
			case <-h.stop:
				return
			default:
			}
			time.Sleep(step)
			now := time.Now()
			h.mu.Lock()
			if lag := now.Sub(last) - step; lag > h.maxLag {
				h.maxLag = lag
			}
			h.last = now
			h.mu.Unlock()
			last = now
		}
	}()
	return h
}

// lag is the longest delay seen so far, including a beat that is overdue right now (the heartbeat
// goroutine may not have run yet after a stall).
func (h *c11Heartbeat) lag() time.Duration {
	h.mu.Lock()
	defer h.mu.Unlock()
	if cur := time.Since(h.last) - h.step; cur > h.maxLag {
		h.maxLag = cur
	}
	return h.maxLag
}

func (x *c11Exec) log(s string) {
	x.mu.Lock()
	x.ev = append(x.ev, s)
	x.mu.Unlock()
}

func (x *c11Exec) call(ctx context.Context, d *ring.InstanceDesc, cancel context.CancelCauseFunc) (int, error) {
	g, _ := strconv.Atoi(d.Id)
	x.mu.Lock()
	x.ev = append(x.ev, "s"+d.Id)
	x.nstart[g]++
	x.ctxs[g] = ctx
	x.cancels[g] = cancel
	x.mu.Unlock()
	<-x.gates[g]
	multi := x.cs.kind == 'm' && len(x.cs.sets) > 1
	switch x.cs.out[g] {
	case 'S':
		return g, nil
	case 's':
		if multi && cancel != nil {
			cancel(errC11Done)
		}
		return g, nil
	case 'T':
		err := &c11Err{g: g, term: true}
		if multi && cancel != nil {
			cancel(err)
		}
		return 0, err
	case 'C':
		err := &c11Err{g: g, canc: true}
		if multi && cancel != nil {
			cancel(err)
		}
		return 0, err
	default:
		err := &c11Err{g: g}
		if multi && cancel != nil {
			cancel(err)
		}
		return 0, err
	}
}

func (x *c11Exec) cleanup(v int) {
	x.log("c" + itoa(v))
	if x.cs.kind == 'm' && len(x.cs.sets) > 1 {
		x.mu.Lock()
		c := x.cancels[v]
		x.mu.Unlock()
		if c != nil {
			c(errC11Done)
		}
	}
}

func c11ErrClass(err error) string {
	var ie *c11Err
	if own, ok := err.(*c11Err); ok { // the error of a callback itself (not a cancellation cause wrapping one)
		return "i" + itoa(own.g)
	}
	switch {
	case errors.Is(err, context.Canceled):
		return "cancel"
	case errors.As(err, &ie):
		return "i" + itoa(ie.g)
	case strings.HasPrefix(err.Error(), "invalid ReplicationSet"), strings.HasPrefix(err.Error(), "invalid DoUntilQuorumConfig"), err.Error() == "no replication sets":
		return "invalid"
	}
	return "other"
}

// window performs one driver action, waits for quiescence and appends the window to the trace.
func (x *c11Exec) window(action string, do func()) {
	if do != nil {
		do()
	}
	x.closeWindow(action)
}

func (x *c11Exec) closeWindow(action string) {
	ok := c11Quiesce()
	if x.t1.IsZero() {
		x.t1 = time.Now()
	}
	x.mu.Lock()
	x.trace = append(x.trace, "A"+action)
	if !ok {
		x.trace = append(x.trace, "Q!")
	}
	x.trace = append(x.trace, x.ev...)
	for _, e := range x.ev {
		if e[0] == 'R' {
			x.returned = true
		}
	}
	x.ev = x.ev[:0]
	for g, k := range x.nstart {
		if k > 0 {
			x.seen[g] = true
		}
	}
	vec := make([]byte, len(x.ctxs))
	for g, c := range x.ctxs {
		switch {
		case c == nil:
			vec[g] = '-'
		case c.Err() != nil:
			vec[g] = 'C'
		default:
			vec[g] = 'L'
		}
	}
	x.trace = append(x.trace, "X"+string(vec))
	if x.cs.hedge {
		// T: no more than T ticks can have fired (the ticker is created after t0);
		// L (long delays only): at least L ticks are due (the ticker was created before t1)
		x.trace = append(x.trace, "T"+itoa(int(time.Since(x.t0)/x.delay)))
		if x.cs.delayMs >= 20 {
			l := int(time.Since(x.t1) / x.delay)
			if x.hb == nil || x.hb.lag() >= x.delay/4 {
				l = 0 // the process was starved: ticks may have been dropped
			}
			x.trace = append(x.trace, "L"+itoa(l))
		}
	}
	x.mu.Unlock()
}

func (x *c11Exec) startedCount() int {
	x.mu.Lock()
	defer x.mu.Unlock()
	t := 0
	for _, k := range x.nstart {
		t += k
	}
	return t
}

// waitTick waits until a callback that was not running before has been started (a hedging tick or
// a delay timer released it), the call returned, or 5 delays have passed.
func (x *c11Exec) waitTick() {
	before := x.startedCount() + len(x.ev)
	deadline := time.Now().Add(5 * x.delay)
	for time.Now().Before(deadline) {
		time.Sleep(x.delay / 8)
		x.mu.Lock()
		now := len(x.ev)
		for _, k := range x.nstart {
			now += k
		}
		x.mu.Unlock()
		if now != before {
			break
		}
	}
	x.closeWindow("w")
}

// c11Run runs one case. A case with a custom zone order on a single replication set is run as TWO
// consecutive reads with the same ZoneSorter, which returns a slice it keeps (a fixed preference list
// owned by the caller): the library must not write into it (token Z! after a read if it did), and the
// second read must behave like the first. The two traces are separated by the token N.
func c11Run(cs *c11Case) string {
	if cs.sorter == nil || (cs.kind != 'q' && cs.kind != 'w') {
		return c11RunOnce(cs, nil)
	}
	present := map[int]bool{}
	for _, z := range cs.sets[0].zones {
		present[z] = true
	}
	var kept []string
	for _, z := range cs.sorter {
		if present[z] {
			kept = append(kept, "zone-"+itoa(z))
		}
	}
	orig := append([]string(nil), kept...)
	mutated := func() string {
		for i := range orig {
			if kept[i] != orig[i] {
				return " Z!"
			}
		}
		return ""
	}
	t1 := c11RunOnce(cs, kept)
	t1 += mutated()
	t2 := c11RunOnce(cs, kept)
	t2 += mutated()
	return t1 + " N " + t2
}

func c11RunOnce(cs *c11Case, kept []string) string {
	n := cs.n()
	x := &c11Exec{cs: cs, ctxs: make([]context.Context, n), cancels: make([]context.CancelCauseFunc, n), gates: make([]chan struct{}, n),
		nstart: make([]int, n), seen: make([]bool, n), released: make([]bool, n), doneCall: make([]bool, n)}
	x.delay = c11Delay
	if cs.delayMs > 0 {
		x.delay = time.Duration(cs.delayMs) * time.Millisecond
	}
	for g := range x.gates {
		x.gates[g] = make(chan struct{})
	}
	// replication sets
	rsets := make([]ring.ReplicationSet, len(cs.sets))
	g := 0
	for si, s := range cs.sets {
		rs := ring.ReplicationSet{MaxErrors: s.maxErr, MaxUnavailableZones: s.maxUnz, ZoneAwarenessEnabled: s.za}
		for j, z := range s.zones {
			addr := "addr-" + itoa(g)
			if s.addr != nil {
				if s.addr[j] < 0 {
					addr = ""
				} else {
					addr = fmt.Sprintf("shared-%d-%d", si, s.addr[j])
				}
			}
			rs.Instances = append(rs.Instances, ring.InstanceDesc{Id: itoa(g), Addr: addr, Zone: "zone-" + itoa(z)})
			g++
		}
		rsets[si] = rs
	}
	cfg := ring.DoUntilQuorumConfig{MinimizeRequests: cs.min}
	if cs.hedge {
		cfg.HedgingDelay = x.delay
	}
	switch cs.term {
	case 1:
		cfg.IsTerminalError = func(err error) bool {
			var ie *c11Err
			return errors.As(err, &ie) && ie.term
		}
	case 2:
		cfg.IsTerminalError = func(error) bool { return true }
	case 3:
		cfg.IsTerminalError = func(err error) bool { return !errors.Is(err, errC11Retryable) }
	case 4:
		// true exactly for cancellation-class errors: outcome C, and the errors posted by goroutines
		// whose awaitStart failed (the predicate is applied to those as well)
		cfg.IsTerminalError = func(err error) bool { return errors.Is(err, context.Canceled) }
	}
	if kept != nil {
		cfg.ZoneSorter = func([]string) []string { return kept } // the caller's own, retained list
	} else if cs.sorter != nil {
		order := cs.sorter
		cfg.ZoneSorter = func(zones []string) []string {
			pos := map[string]int{}
			for i, z := range order {
				pos["zone-"+itoa(z)] = i
			}
			sort.SliceStable(zones, func(a, b int) bool { return pos[zones[a]] < pos[zones[b]] })
			return zones
		}
	}
	if cs.delayMs >= 20 {
		// one P: every timer of the process is on its heap and is run whenever the driver yields, so a
		// due tick cannot sit unnoticed on an idle P when a window is closed
		old := runtime.GOMAXPROCS(1)
		x.hb = c11StartHeartbeat(x.delay / 16)
		defer func() {
			close(x.hb.stop)
			<-x.hb.done
			runtime.GOMAXPROCS(old)
		}()
	}
	parent, cancelParent := context.WithCancel(context.Background())
	defer cancelParent()
	cancelled := false
	if cs.cancelAt == 0 {
		cancelParent()
		cancelled = true
	}
	if cs.cancelIn >= 0 && cfg.IsTerminalError != nil {
		inner, calls := cfg.IsTerminalError, 0
		cfg.IsTerminalError = func(err error) bool {
			if calls == cs.cancelIn && !cancelled {
				// the main loop is in the middle of handling a result: the caller goes away right now
				cancelled = true
				x.log("K")
				cancelParent()
			}
			calls++
			return inner(err)
		}
	}
	x.t0 = time.Now()
	launch := func() {
		go func() {
			var res []int
			var err error
			switch cs.kind {
			case 'q':
				res, err = ring.DoUntilQuorum(parent, rsets[0], cfg, func(ctx context.Context, d *ring.InstanceDesc) (int, error) {
					return x.call(ctx, d, nil)
				}, x.cleanup)
			case 'w':
				res, err = ring.DoUntilQuorumWithoutSuccessfulContextCancellation(parent, rsets[0], cfg, x.call, x.cleanup)
			case 'm':
				res, err = ring.DoMultiUntilQuorumWithoutSuccessfulContextCancellation(parent, rsets, cfg, x.call, x.cleanup)
			case 'd':
				delay := time.Duration(0)
				if cs.hedge {
					delay = x.delay
				}
				var r []interface{}
				r, err = rsets[0].Do(parent, delay, func(ctx context.Context, d *ring.InstanceDesc) (interface{}, error) {
					return x.call(ctx, d, nil)
				})
				for _, v := range r {
					res = append(res, v.(int))
				}
			}
			if err != nil {
				x.log("R!" + c11ErrClass(err))
			} else {
				x.mu.Lock()
				x.retOK = res
				x.mu.Unlock()
				x.log("R+" + c11Ints(res))
			}
		}()
	}
	if cancelled {
		x.window("init!", launch) // the caller's context was already cancelled
	} else {
		x.window("init", launch)
	}

	isWait := func(k int) int {
		t := 0
		for _, w := range cs.waits {
			if w == k {
				t++
			}
		}
		return t
	}
	arrivals := 0
	idle := 0
	for {
		if cs.cancelAt == arrivals && !cancelled {
			cancelled = true
			x.window("c", cancelParent)
		}
		for _, p := range cs.pauses {
			if p[0] == arrivals {
				if d := time.Until(x.t1.Add(time.Duration(p[1]) * time.Millisecond)); d > 0 {
					time.Sleep(d)
				}
				x.closeWindow("w")
			}
		}
		if cs.hedge {
			for w := isWait(arrivals); w > 0; w-- {
				x.waitTick()
			}
		}
		next := -1
		for _, g := range cs.prio {
			if x.seen[g] && !x.released[g] { // started in a window that is already closed
				next = g
				break
			}
		}
		if next < 0 {
			if !x.returned && cs.hedge && idle < 3 {
				idle++
				x.waitTick()
				continue
			}
			break
		}
		idle = 0
		x.released[next] = true
		x.window(fmt.Sprintf("a%d%c", next, cs.out[next]), func() { close(x.gates[next]) })
		arrivals++
	}
	if cs.kind == 'm' && len(cs.sets) > 1 {
		// the caller is done with the returned results: call their cancel functions one by one
		for _, g := range cs.prio {
			use := false
			for _, r := range x.retOK {
				if r == g {
					use = true
				}
			}
			if use && cs.out[g] == 'S' && x.cancels[g] != nil {
				c := x.cancels[g]
				x.window("d"+itoa(g), func() { c(errC11Done) })
			}
		}
	}
	// bounded wait for the drain goroutine: a last quiescence point (plus a grace period if the call has not returned)
	if !x.returned {
		time.Sleep(20 * time.Millisecond)
	}
	x.window("end", nil)
	return strings.Join(x.trace, " ")
}

// ---------------------------------------------------------------------------------------------
// generation

func c11Perm(r *rng, n int) []int {
	p := make([]int, n)
	for i := range p {
		p[i] = i
	}
	for i := n - 1; i > 0; i-- {
		j := r.intn(i + 1)
		p[i], p[j] = p[j], p[i]
	}
	return p
}

func c11Distinct(zs []int) []int {
	seen := map[int]bool{}
	var o []int
	for _, z := range zs {
		if !seen[z] {
			seen[z] = true
			o = append(o, z)
		}
	}
	return o
}

// c11RandAddr gives about 40% of the sets with two or more instances duplicate addresses: all Addr
// empty (only Id/Zone set), all instances behind one address, or 2-3 instances sharing one address.
func c11RandAddr(r *rng, s *c11Set) {
	n := len(s.zones)
	if n < 2 || !r.chance(2, 5) {
		return
	}
	s.addr = make([]int, n)
	switch r.intn(4) {
	case 0: // every Addr empty
		for i := range s.addr {
			s.addr[i] = -1
		}
	case 1: // one virtual address for all
		for i := range s.addr {
			s.addr[i] = 0
		}
	default: // 2-3 instances share an address, the others have their own
		for i := range s.addr {
			s.addr[i] = i + 1
		}
		p := c11Perm(r, n)
		k := 2 + r.intn(2)
		if k > n {
			k = n
		}
		for _, i := range p[:k] {
			s.addr[i] = 0
		}
	}
}

func c11RandSet(r *rng, maxN int) c11Set {
	var n int
	if maxN >= 6 {
		n = pick(r, []int{1, 2, 2, 3, 3, 3, 3, 4, 4, 4, 4, 5, 5, 5, 6, 6, 6})
	} else {
		n = 1 + r.intn(maxN)
	}
	nz := 1 + r.intn(min(4, n))
	s := c11Set{zones: make([]int, n)}
	for i := range s.zones {
		s.zones[i] = r.intn(nz)
	}
	if r.chance(1, 2) { // every zone present, round robin
		for i := range s.zones {
			s.zones[i] = i % nz
		}
		if r.chance(1, 2) {
			p := c11Perm(r, n)
			zz := make([]int, n)
			for i := range zz {
				zz[i] = s.zones[p[i]]
			}
			s.zones = zz
		}
	}
	c11RandAddr(r, &s)
	z := len(c11Distinct(s.zones))
	switch k := r.intn(100); {
	case k < 45: // flat
		s.maxErr = pick(r, []int{0, 0, 1, 1, 1, 2, 2, r.intn(n + 1), r.intn(n), r.intn(n), r.intn(n), n})
		if s.maxErr > n {
			s.maxErr = n
		}
	case k < 90: // zone aware
		s.maxUnz = pick(r, []int{0, 0, 1, 1, 1, 2, r.intn(z + 1), r.intn(z), r.intn(z), r.intn(z), z})
		if s.maxUnz > z {
			s.maxUnz = z
		}
		s.za = s.maxUnz == 0 || r.chance(2, 3)
	case k < 96: // both tolerances set, zone mode wins
		s.maxErr = 1 + r.intn(n)
		s.maxUnz = 1 + r.intn(z)
	default: // invalid configuration
		s.maxErr = 1 + r.intn(n)
		s.za = true
		s.maxUnz = r.intn(z + 1)
	}
	return s
}

func c11RandScript(r *rng, c *c11Case) {
	n := c.n()
	c.out = make([]byte, n)
	pe := pick(r, []int{0, 10, 25, 25, 40, 60}) // failure probability (%) of this case
	for i := range c.out {
		k := r.intn(100)
		switch {
		case k < pe:
			switch r.intn(8) {
			case 0, 1:
				c.out[i] = 'T'
			case 2, 3:
				c.out[i] = 'C'
			default:
				c.out[i] = 'E'
			}
		default:
			c.out[i] = 'S'
			if c.kind == 'm' && len(c.sets) > 1 && r.chance(1, 4) {
				c.out[i] = 's'
			}
		}
	}
	c.prio = c11Perm(r, n)
	c.cancelAt = -1
	c.cancelIn = -1
	if r.chance(1, 4) {
		c.cancelAt = r.intn(n + 1)
	} else if c.term != 0 && c.kind != 'd' && r.chance(1, 2) {
		c.cancelIn = pick(r, []int{0, 0, 0, 1, 2})
	}
	if c.hedge && c.kind == 'd' {
		if r.chance(2, 3) { // the delay timers fire once
			c.waits = []int{r.intn(min(n, 2) + 1)}
		}
	} else if c.hedge {
		for k := 0; k <= n; k++ {
			if (k == 0 && r.chance(1, 2)) || r.chance(1, 4) {
				c.waits = append(c.waits, k)
			}
		}
	}
}

func c11Random(r *rng) *c11Case {
	c := &c11Case{}
	switch k := r.intn(100); {
	case k < 37:
		c.kind = 'q'
	case k < 74:
		c.kind = 'w'
	case k < 88:
		c.kind = 'm'
	default:
		c.kind = 'd'
	}
	c.min = r.chance(1, 2)
	if c.min {
		c.hedge = r.chance(2, 5)
	} else {
		c.hedge = r.chance(1, 25)
	}
	c.term = pick(r, []int{0, 0, 0, 0, 1, 1, 1, 2, 2, 3, 3, 4, 4})
	if c.kind == 'd' {
		c.min, c.term = false, 0
		c.hedge = r.chance(1, 3)
	}
	if c.kind == 'm' {
		ns := 2 + r.intn(2)
		if r.chance(1, 12) {
			ns = 1
		}
		for i := 0; i < ns; i++ {
			c.sets = append(c.sets, c11RandSet(r, 3))
		}
	} else {
		c.sets = []c11Set{c11RandSet(r, 6)}
	}
	if c.kind == 'd' {
		s := &c.sets[0]
		if s.maxUnz > 0 {
			s.maxErr = 0
		}
		s.za = s.maxUnz > 0
	}
	if c.kind != 'd' && c.min && r.chance(2, 5) {
		// custom zone order over the union of zone ids
		var all []int
		for _, s := range c.sets {
			all = append(all, s.zones...)
		}
		zs := c11Distinct(all)
		sort.Ints(zs)
		p := c11Perm(r, len(zs))
		c.sorter = make([]int, len(zs))
		for i := range p {
			c.sorter[i] = zs[p[i]]
		}
	}
	c11RandScript(r, c)
	return c
}

// c11Timing: MinimizeRequests with a hedging delay d of 60 ms; three results are handed over at about
// 0.7d, 1.4d and 2.1d without completing the quorum, then everything is held until 2.9d and observed
// (by then the hedged requests due at d and 2d must have been released), then the rest completes.
func c11Timing(r *rng) *c11Case {
	const d = 60
	c := &c11Case{kind: pick(r, []byte{'q', 'w'}), min: true, hedge: true, delayMs: d, cancelAt: -1, cancelIn: -1}
	c.term = pick(r, []int{0, 1, 3})
	c.pauses = [][2]int{{0, d * 7 / 10}, {1, d * 14 / 10}, {2, d * 21 / 10}, {3, d * 29 / 10}}
	switch r.intn(6) {
	case 4, 5:
		// zone-aware, two zones held back; zone 0 fails well before the first hedging tick (the failure
		// releases zone 2), zone 1 stays slow: the tick at d must still release zone 3, through which alone
		// the quorum {2, 3} can be reached
		if r.chance(1, 2) {
			c.sets = []c11Set{{zones: []int{0, 1, 2, 3}, maxUnz: 2, za: r.chance(1, 2)}}
			c.out = []byte("ESSS")
			c.prio = []int{0, 2, 3, 1}
		} else {
			c.sets = []c11Set{{zones: []int{0, 0, 1, 2, 3, 3}, maxUnz: 2, za: r.chance(1, 2)}}
			c.out = []byte("ESSSSS")
			c.prio = []int{0, 3, 4, 5, 1, 2}
		}
		c.sorter = []int{0, 1, 2, 3}
		c.pauses = [][2]int{{0, d * 3 / 10}, {1, d * 29 / 10}}
	case 0: // flat, 4 of 6 needed, 2 held back
		c.sets = []c11Set{{zones: []int{0, 1, 2, 0, 1, 2}, maxErr: 2}}
		c.out = []byte("SSSSSS")
		c.prio = c11Perm(r, 6)
	case 1: // flat, 4 of 5 needed, 1 held back
		c.sets = []c11Set{{zones: []int{0, 0, 0, 0, 0}, maxErr: 1}}
		c.out = []byte("SSSSS")
		c.prio = c11Perm(r, 5)
	case 2: // zone-aware, zones in the order 0,1,2: zones 0 and 1 (4 instances) first, zone 2 held back
		c.sets = []c11Set{{zones: []int{0, 0, 1, 1, 2}, maxUnz: 1, za: true}}
		c.sorter = []int{0, 1, 2}
		c.out = []byte("SSSSS")
		c.prio = []int{0, 2, 1, 3, 4}
	default: // zone-aware with a tolerated failure among the three early results
		c.sets = []c11Set{{zones: []int{0, 0, 1, 1, 2, 3}, maxUnz: 2, za: r.chance(1, 2)}}
		c.sorter = []int{0, 1, 2, 3}
		c.out = []byte("SESSSS")
		c.prio = []int{0, 2, 1, 3, 4, 5}
	}
	c11RandAddr(r, &c.sets[0])
	return c
}

// c11Layouts enumerates zone layouts of n instances up to renaming (restricted growth strings), at most 4 zones.
func c11Layouts(n int) [][]int {
	var out [][]int
	var rec func(cur []int, mx int)
	rec = func(cur []int, mx int) {
		if len(cur) == n {
			out = append(out, append([]int(nil), cur...))
			return
		}
		for z := 0; z <= mx+1 && z < 4; z++ {
			m := mx
			if z > mx {
				m = z
			}
			rec(append(cur, z), m)
		}
	}
	rec(nil, -1)
	return out
}

func c11Perms(n int) [][]int {
	var out [][]int
	var rec func(cur []int, used int)
	rec = func(cur []int, used int) {
		if len(cur) == n {
			out = append(out, append([]int(nil), cur...))
			return
		}
		for i := 0; i < n; i++ {
			if used&(1<<i) == 0 {
				rec(append(cur, i), used|1<<i)
			}
		}
	}
	rec(nil, 0)
	return out
}

// c11Exhaustive enumerates, for a single replication set of n instances: every zone layout, every
// tolerance (flat 0..n, zone-aware 0..zones), both variants, minimisation on/off, terminal
// predicate on/off, every outcome assignment, every completion order, every cancellation point.
// keep(i) subsamples.
func c11Exhaustive(n int, keep func() bool, addr func(n int) []int, tkind func() int, emit func(*c11Case)) {
	perms := c11Perms(n)
	for _, lay := range c11Layouts(n) {
		z := len(c11Distinct(lay))
		type tol struct {
			e, u int
			za   bool
		}
		var tols []tol
		for e := 0; e <= n; e++ {
			tols = append(tols, tol{e, 0, false})
		}
		for u := 0; u <= z; u++ {
			tols = append(tols, tol{0, u, true})
		}
		for _, tl := range tols {
			for _, kind := range []byte{'q', 'w'} {
				for _, mn := range []bool{false, true} {
					for _, tm := range []bool{false, true} {
						alphabet := []byte("SE")
						if tm {
							alphabet = []byte("SET")
						}
						total := 1
						for i := 0; i < n; i++ {
							total *= len(alphabet)
						}
						for code := 0; code < total; code++ {
							out := make([]byte, n)
							c := code
							for i := range out {
								out[i] = alphabet[c%len(alphabet)]
								c /= len(alphabet)
							}
							for _, p := range perms {
								for ca := -1; ca <= n; ca++ {
									if !keep() {
										continue
									}
									set := c11Set{zones: lay, maxErr: tl.e, maxUnz: tl.u, za: tl.za}
									if addr != nil {
										set.addr = addr(n)
									}
									term := 0
									if tm {
										term = 1
										if tkind != nil {
											term = tkind()
										}
									}
									cin := -1
									if term != 0 && ca == -1 && (code+len(tols)+int(p[0]))%4 == 0 {
										cin = code % 2 // the caller goes away while the main loop handles a failure
									}
									emit(&c11Case{kind: kind, min: mn, term: term, sets: []c11Set{set}, out: out, prio: p, cancelAt: ca, cancelIn: cin})
								}
							}
						}
					}
				}
			}
		}
	}
}

func c11Generate(e *env) []*c11Case {
	var cases []*c11Case
	add := func(c *c11Case) { cases = append(cases, c) }
	rs := newRng(e.seed, 1100)
	all := func() bool { return true }
	sample := func(p, q int) func() bool { return func() bool { return rs.chance(p, q) } }
	// address variant of an enumerated case: own addresses / all empty / one shared address / first two shared
	addr := func(n int) []int {
		if n < 2 {
			return nil
		}
		a := make([]int, n)
		switch rs.intn(5) {
		case 0:
			for i := range a {
				a[i] = -1
			}
		case 1:
			// all zero: one address for all
		case 2:
			for i := range a {
				a[i] = i
			}
			a[1] = 0
		default:
			return nil
		}
		return a
	}
	// kind of the terminal-error predicate of an enumerated case that has one (see c11Case.term)
	tkind := func() int { return pick(rs, []int{1, 1, 2, 3, 4}) }
	c11Exhaustive(1, all, nil, tkind, add)
	if e.quick {
		c11Exhaustive(2, sample(1, 4), addr, tkind, add)
		c11Exhaustive(3, sample(1, 150), addr, tkind, add)
	} else {
		c11Exhaustive(2, all, addr, tkind, add)
		c11Exhaustive(3, sample(1, 3), addr, tkind, add)
		c11Exhaustive(4, sample(1, 400), addr, tkind, add)
	}
	// hedging-timing cases (long delay): results keep arriving faster than the delay while the quorum
	// stays open; the hedged requests must nevertheless be released at d, 2d, ... from the start
	rt := newRng(e.seed, 1102)
	ntim := 160
	if !e.quick {
		ntim = 640
	}
	for i := 0; i < ntim; i++ {
		add(c11Timing(rt))
	}
	r := newRng(e.seed, 1101)
	nrand := 9000 * e.scale
	if !e.quick {
		nrand = 9000 * 12
	}
	for i := 0; i < nrand; i++ {
		add(c11Random(r))
	}
	return cases
}

func runC11(e *env) {
	cases := c11Generate(e)
	// shard k/N (child process) or parent
	shard, nshards := -1, 0
	for _, a := range e.args {
		if strings.HasPrefix(a, "shard=") {
			fmt.Sscanf(a, "shard=%d/%d", &shard, &nshards)
		}
	}
	if shard >= 0 {
		runtime.GOMAXPROCS(4)
		e.progSeq = shard * 10000000 // the shards append to one progress log: keep their sequence numbers apart
		for i, c := range cases {
			if i%nshards != shard {
				continue
			}
			cmd, opts, sets, script := c.fields()
			// crash attribution: a panic in a library goroutine takes this process down; the driver then
			// reports the case that was in flight as the failing input
			done := e.begin(strings.Join([]string{cmd, opts, sets, script}, "\t"))
			tr := c11Run(c)
			done()
			e.emit(cmd, opts, sets, script, tr)
		}
		return
	}
	nshards = runtime.NumCPU() / 2
	if nshards < 1 {
		nshards = 1
	}
	if v := os.Getenv("C11_SHARDS"); v != "" {
		nshards, _ = strconv.Atoi(v)
	}
	outs := make([][]byte, nshards)
	errs := make([]error, nshards)
	var wg sync.WaitGroup
	for k := 0; k < nshards; k++ {
		wg.Add(1)
		go func(k int) {
			defer wg.Done()
			c := exec.Command(os.Args[0], "-seed", strconv.FormatUint(e.seed, 10), "-tier", e.tier, "C11", fmt.Sprintf("shard=%d/%d", k, nshards))
			c.Stderr = os.Stderr
			outs[k], errs[k] = c.Output()
		}(k)
	}
	wg.Wait()
	failed := false
	for k := range outs {
		if errs[k] != nil {
			fmt.Fprintln(os.Stderr, "C11 shard", k, "failed:", errs[k])
			failed = true
		}
	}
	if failed {
		// keep what the other shards produced (order does not matter), then fail: the driver attributes the
		// crash to the case that was in flight
		for k := range outs {
			if errs[k] == nil {
				e.w.Write(outs[k])
			}
		}
		e.w.Flush()
		os.Exit(1)
	}
	// interleave the shard outputs back into case order
	lines := make([][]string, nshards)
	for k := range outs {
		lines[k] = strings.Split(strings.TrimRight(string(outs[k]), "\n"), "\n")
	}
	for i := range cases {
		k, j := i%nshards, i/nshards
		if j < len(lines[k]) && lines[k][j] != "" {
			e.w.WriteString(lines[k][j])
			e.w.WriteByte('\n')
		}
	}
}
