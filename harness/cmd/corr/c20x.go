package main

// C20 extension streams: interceptor chains through the real entry points (explicit per stage),
// httpgrpc tunnelling, the user-id key / LogWith, JoinTenantIDs / TenantIDsFromOrgID / MultiResolver.

import (
	"context"
	"errors"
	"fmt"
	"net/http"
	"net/http/httptest"
	"strings"

	"github.com/go-kit/log"
	"google.golang.org/grpc"
	"google.golang.org/grpc/metadata"

	"github.com/grafana/dskit/httpgrpc"
	httpgrpcserver "github.com/grafana/dskit/httpgrpc/server"
	"github.com/grafana/dskit/middleware"
	"github.com/grafana/dskit/tenant"
	"github.com/grafana/dskit/user"
)

type c20Stage struct {
	kind     byte     // 'H' http, 'G' grpc, 'T' http tunnelled through grpc (httpgrpc)
	hrecv    byte     // 'e' ExtractOrgIDFromHTTPRequest, 't' tenant.ExtractTenantIDFromHTTPRequest, 'a' AuthenticateUser
	gsend    byte     // 'i' InjectIntoGRPCRequest, 'u' ClientUserHeaderInterceptor, 's' StreamClientUserHeaderInterceptor
	grecv    byte     // 'e' ExtractFromGRPCRequest, 'u' ServerUserHeaderInterceptor, 's' StreamServerUserHeaderInterceptor
	existing []string // nil = absent
	stale    string
}

func (s c20Stage) String() string {
	var b strings.Builder
	b.WriteByte(s.kind)
	if s.kind == 'G' {
		b.WriteByte(s.gsend)
		b.WriteByte(s.grecv)
	} else {
		b.WriteByte(s.hrecv)
	}
	b.WriteByte(':')
	switch {
	case s.existing == nil:
		b.WriteString("none")
	case len(s.existing) == 0:
		b.WriteString("empty")
	default:
		b.WriteString(hxs(s.existing))
	}
	if s.stale != "" {
		b.WriteString("!" + hx(s.stale))
	}
	return b.String()
}

type c20FakeServerStream struct {
	grpc.ServerStream
	ctx context.Context
}

func (f c20FakeServerStream) Context() context.Context { return f.ctx }

var c20OrgKey = http.CanonicalHeaderKey(user.OrgIDHeaderName)

// c20RecvHTTP runs the chosen real HTTP receiving entry point on req.
func c20RecvHTTP(which byte, req *http.Request) (context.Context, error) {
	switch which {
	case 'e':
		_, c, err := user.ExtractOrgIDFromHTTPRequest(req)
		if err != nil {
			return nil, err
		}
		return c, nil
	case 't':
		_, c, err := tenant.ExtractTenantIDFromHTTPRequest(req)
		if err != nil {
			return nil, err
		}
		return c, nil
	default:
		var got context.Context
		rec := httptest.NewRecorder()
		middleware.AuthenticateUser.Wrap(http.HandlerFunc(func(_ http.ResponseWriter, r *http.Request) { got = r.Context() })).ServeHTTP(rec, req)
		if got == nil {
			if rec.Code == http.StatusUnauthorized && strings.TrimSpace(rec.Body.String()) == user.ErrNoOrgID.Error() {
				return nil, user.ErrNoOrgID
			}
			return nil, fmt.Errorf("middleware rejected: %d %s", rec.Code, rec.Body.String())
		}
		return got, nil
	}
}

func c20Stale(c context.Context, stale string) context.Context {
	if stale != "" {
		return user.InjectOrgID(c, stale)
	}
	return c
}

// c20GRPCSend: the chosen real sending entry point; returns the outgoing metadata.
func c20GRPCSend(which byte, base context.Context) (metadata.MD, error) {
	var out context.Context
	var err error
	called := false
	switch which {
	case 'i':
		out, err = user.InjectIntoGRPCRequest(base)
		called = err == nil
	case 'u':
		err = middleware.ClientUserHeaderInterceptor(base, "/m", nil, nil, nil, func(c context.Context, _ string, _, _ interface{}, _ *grpc.ClientConn, _ ...grpc.CallOption) error {
			out, called = c, true
			return nil
		})
	default:
		_, err = middleware.StreamClientUserHeaderInterceptor(base, &grpc.StreamDesc{}, nil, "/m", func(c context.Context, _ *grpc.StreamDesc, _ *grpc.ClientConn, _ string, _ ...grpc.CallOption) (grpc.ClientStream, error) {
			out, called = c, true
			return nil, nil
		})
	}
	if err != nil {
		if called {
			return nil, fmt.Errorf("continuation-called-despite-error: %w", errors.New(err.Error()))
		}
		return nil, err
	}
	if !called {
		return nil, errors.New("continuation-not-called")
	}
	md, _ := metadata.FromOutgoingContext(out)
	return md, nil
}

// c20GRPCRecv: the chosen real receiving entry point on the incoming context.
func c20GRPCRecv(which byte, in context.Context) (context.Context, error) {
	var got context.Context
	var err error
	switch which {
	case 'e':
		_, got, err = user.ExtractFromGRPCRequest(in)
	case 'u':
		_, err = middleware.ServerUserHeaderInterceptor(in, nil, nil, func(c context.Context, _ interface{}) (interface{}, error) { got = c; return nil, nil })
	default:
		err = middleware.StreamServerUserHeaderInterceptor(nil, c20FakeServerStream{ctx: in}, nil, func(_ interface{}, ss grpc.ServerStream) error { got = ss.Context(); return nil })
	}
	if err != nil {
		if which != 'e' && got != nil {
			return nil, errors.New("continuation-called-despite-error")
		}
		return nil, err
	}
	if got == nil {
		return nil, errors.New("continuation-not-called")
	}
	return got, nil
}

// c20Tunnel: req (context ctx, headers as they are) through FromHTTPRequest, the client and server
// interceptors and httpgrpc/server.Server.Handle, to the inner handler chosen by `inner`.
func c20Tunnel(req *http.Request, stale string, inner byte) (context.Context, error) {
	hreq, err := httpgrpc.FromHTTPRequest(req)
	if err != nil {
		return nil, err
	}
	var got context.Context
	var innerErr error
	srv := httpgrpcserver.NewServer(http.HandlerFunc(func(w http.ResponseWriter, r *http.Request) {
		got, innerErr = c20RecvHTTP(inner, r)
		if innerErr != nil {
			http.Error(w, innerErr.Error(), http.StatusUnauthorized)
		}
	}))
	err = middleware.ClientUserHeaderInterceptor(req.Context(), "/httpgrpc.HTTP/Handle", hreq, nil, nil,
		func(c context.Context, _ string, rq, _ interface{}, _ *grpc.ClientConn, _ ...grpc.CallOption) error {
			md, _ := metadata.FromOutgoingContext(c)
			in := metadata.NewIncomingContext(c20Stale(context.Background(), stale), md.Copy())
			_, e := middleware.ServerUserHeaderInterceptor(in, rq, nil, func(c2 context.Context, rq2 interface{}) (interface{}, error) {
				return srv.Handle(c2, rq2.(*httpgrpc.HTTPRequest))
			})
			return e
		})
	if err != nil {
		return nil, err
	}
	if innerErr != nil {
		return nil, innerErr
	}
	if got == nil {
		return nil, errors.New("inner-handler-not-reached")
	}
	return got, nil
}

func c20RunStage(ctx context.Context, s c20Stage) (context.Context, error) {
	switch s.kind {
	case 'H', 'T':
		req := httptest.NewRequest("GET", "http://example/p", nil).WithContext(ctx)
		if s.existing != nil {
			req.Header[c20OrgKey] = append([]string{}, s.existing...)
		}
		if err := user.InjectOrgIDIntoHTTPRequest(ctx, req); err != nil {
			return nil, err
		}
		if s.kind == 'T' {
			return c20Tunnel(req, s.stale, s.hrecv)
		}
		req2 := httptest.NewRequest("GET", "http://example/p", nil)
		req2.Header = req.Header.Clone()
		req2 = req2.WithContext(c20Stale(req2.Context(), s.stale))
		return c20RecvHTTP(s.hrecv, req2)
	}
	base := ctx
	if s.existing != nil {
		base = metadata.NewOutgoingContext(ctx, metadata.MD{"x-scope-orgid": append([]string{}, s.existing...), "other-key": []string{"v"}})
	}
	md, err := c20GRPCSend(s.gsend, base)
	if err != nil {
		return nil, err
	}
	if s.existing != nil && strings.Join(md.Get("other-key"), ",") != "v" {
		return nil, errors.New("other-metadata-lost")
	}
	in := metadata.NewIncomingContext(c20Stale(context.Background(), s.stale), md.Copy())
	return c20GRPCRecv(s.grecv, in)
}

func c20ObsCtx(ctx context.Context, err error, i int) string {
	if err != nil {
		return fmt.Sprintf("err:%s@%d", c20ErrClass(err), i)
	}
	if v, e := user.ExtractOrgID(ctx); e == nil {
		return "ok:" + hx(v)
	}
	return "ok:none"
}

func c20IChain(e *env, id *string, stages []c20Stage) {
	ctx := context.Background()
	ids := "none"
	if id != nil {
		ctx = user.InjectOrgID(ctx, *id)
		ids = hx(*id)
	}
	obs := ""
	for i, s := range stages {
		c, err := c20RunStage(ctx, s)
		if err != nil {
			obs = c20ObsCtx(nil, err, i)
			break
		}
		ctx = c
	}
	if obs == "" {
		obs = c20ObsCtx(ctx, nil, 0)
	}
	ss := make([]string, len(stages))
	for i, s := range stages {
		ss[i] = s.String()
	}
	st := strings.Join(ss, " ")
	if len(ss) == 0 {
		st = "-"
	}
	e.emit("C20.ichain", ids, st, obs)
}

func c20RandExisting(r *rng, kind byte, id *string) []string {
	other := "other"
	same := other
	if id != nil {
		same = *id
	}
	switch r.intn(8) {
	case 0:
		return []string{same}
	case 1:
		return []string{other}
	case 2:
		if kind == 'G' {
			return []string{}
		}
		return []string{""}
	case 3:
		if kind == 'G' {
			return []string{same, same}
		}
		return []string{"", other}
	case 4:
		return []string{same, other}
	case 5:
		return []string{other, same}
	case 6:
		if kind != 'G' {
			return []string{"", same}
		}
		return []string{""}
	}
	return []string{same}
}

func c20RandStage(r *rng, id *string) c20Stage {
	s := c20Stage{kind: pick(r, []byte{'H', 'G', 'T'}), hrecv: pick(r, []byte{'e', 't', 'a'}), gsend: pick(r, []byte{'i', 'u', 's'}), grecv: pick(r, []byte{'e', 'u', 's'})}
	if r.chance(1, 6) {
		s.existing = c20RandExisting(r, s.kind, id)
	}
	if r.chance(1, 5) {
		s.stale = pick(r, []string{"receiver-own-id", "other", "a"})
	}
	return s
}

// c20TunnelCase: a request whose header was NOT injected from the context (it holds hdr as it is),
// tunnelled; the context may or may not hold an identifier.
func c20TunnelCase(e *env, id *string, hdr []string, inner byte, stale string) {
	ctx := context.Background()
	ids := "none"
	if id != nil {
		ctx = user.InjectOrgID(ctx, *id)
		ids = hx(*id)
	}
	req := httptest.NewRequest("GET", "http://example/p", nil).WithContext(ctx)
	hs := "none"
	if hdr != nil {
		req.Header[c20OrgKey] = append([]string{}, hdr...)
		hs = hxs(hdr)
	}
	c, err := c20Tunnel(req, stale, inner)
	e.emit("C20.tunnel", ids, fmt.Sprintf("%s %c %s", hs, inner, hx(stale)), c20ObsCtx(c, err, 0))
}

func c20UErr(err error) string {
	switch {
	case err == nil:
		return "ok"
	case errors.Is(err, user.ErrNoUserID):
		return "noUserID"
	case errors.Is(err, user.ErrDifferentUserIDPresent):
		return "differentUser"
	}
	return "other(" + err.Error() + ")"
}

func c20OrgOf(c context.Context) string {
	if v, err := user.ExtractOrgID(c); err == nil {
		return hx(v)
	}
	return "none"
}
func c20UserOf(c context.Context) string {
	if v, err := user.ExtractUserID(c); err == nil {
		return hx(v)
	} else if !errors.Is(err, user.ErrNoUserID) {
		return "other"
	}
	return "none"
}

// c20CtxCase: a context built by a sequence of InjectOrgID / InjectUserID; observations: both
// extractors, the user-id HTTP header functions, LogWith.
func c20CtxCase(e *env, binds []string, hdr []string) {
	ctx := context.Background()
	for _, b := range binds {
		if b[0] == 'o' {
			ctx = user.InjectOrgID(ctx, b[1:])
		} else {
			ctx = user.InjectUserID(ctx, b[1:])
		}
	}
	bs := make([]string, len(binds))
	for i, b := range binds {
		bs[i] = string(b[0]) + hx(b[1:])
	}
	bstr := strings.Join(bs, ",")
	if len(bs) == 0 {
		bstr = "-"
	}
	userKey := http.CanonicalHeaderKey(user.UserIDHeaderName)
	hs := "none"
	req := httptest.NewRequest("GET", "http://example/", nil)
	if hdr != nil {
		req.Header[userKey] = append([]string{}, hdr...)
		hs = hxs(hdr)
	}
	inj := ""
	if err := user.InjectUserIDIntoHTTPRequest(ctx, req); err != nil {
		inj = "err:" + c20UErr(err)
	} else {
		inj = "ok:" + hxs(req.Header[userKey])
	}
	req2 := httptest.NewRequest("GET", "http://example/", nil).WithContext(ctx)
	if hdr != nil {
		req2.Header[userKey] = append([]string{}, hdr...)
	}
	ext := ""
	if u, c, err := user.ExtractUserIDFromHTTPRequest(req2); err != nil {
		ext = "err:" + c20UErr(err)
	} else {
		ext = "ok:" + hx(u) + "/" + c20UserOf(c) + "/" + c20OrgOf(c)
	}
	var kvs []string
	lg := log.With(log.LoggerFunc(func(keyvals ...interface{}) error {
		for i := 0; i+1 < len(keyvals); i += 2 {
			kvs = append(kvs, fmt.Sprint(keyvals[i])+"="+hx(fmt.Sprint(keyvals[i+1])))
		}
		return nil
	}), "base", "b")
	_ = user.LogWith(ctx, lg).Log()
	e.emit("C20.ctx", bstr, hs, c20UserOf(ctx), c20OrgOf(ctx), inj, ext, strings.Join(kvs, ","))
}

// c20JoinCase: JoinTenantIDs, TenantIDsFromOrgID on the joined string, MultiResolver on a context.
func c20JoinCase(e *env, ids []string) {
	joined := tenant.JoinTenantIDs(append([]string{}, ids...))
	res := func(ts []string, err error) string {
		if err != nil {
			return "err:" + c20ErrClass(err)
		}
		return "ok:" + hxs(ts)
	}
	from := res(tenant.TenantIDsFromOrgID(joined))
	mr := tenant.NewMultiResolver()
	ctx := user.InjectOrgID(context.Background(), joined)
	multi := res(mr.TenantIDs(ctx))
	single := ""
	if t, err := mr.TenantID(ctx); err != nil {
		single = "err:" + c20ErrClass(err)
	} else {
		single = "ok:" + hx(t)
	}
	norm := hxs(tenant.NormalizeTenantIDs(append([]string{}, ids...)))
	in := "none"
	if len(ids) > 0 {
		in = hxs(ids)
	}
	e.emit("C20.join", in, "-", hx(joined), from, multi, single, norm)
}

func runC20X(e *env) {
	runC20Edge(e)
	// 6. interceptor chains with explicit entry points
	r := newRng(e.seed, 22)
	// every (kind, entry point) combination once per carrier state, from a plain valid identifier
	for _, id := range []string{"tenant-1", "a|b", "a:k=v", "", "bad/id", "a|a:k=v"} {
		id := id
		for _, hr := range []byte{'e', 't', 'a'} {
			for _, k := range []byte{'H', 'T'} {
				for _, ex := range [][]string{nil, {id}, {"other"}, {""}, {"", "other"}, {id, "other"}} {
					for _, st := range []string{"", "stale"} {
						c20IChain(e, &id, []c20Stage{{kind: k, hrecv: hr, existing: ex, stale: st}})
					}
				}
			}
		}
		for _, gs := range []byte{'i', 'u', 's'} {
			for _, gr := range []byte{'e', 'u', 's'} {
				for _, ex := range [][]string{nil, {id}, {"other"}, {}, {id, id}} {
					c20IChain(e, &id, []c20Stage{{kind: 'G', gsend: gs, grecv: gr, existing: ex}})
				}
				c20IChain(e, nil, []c20Stage{{kind: 'G', gsend: gs, grecv: gr}})
			}
		}
	}
	for _, hr := range []byte{'e', 't', 'a'} {
		c20IChain(e, nil, []c20Stage{{kind: 'H', hrecv: hr}})
		c20IChain(e, nil, []c20Stage{{kind: 'T', hrecv: hr, existing: []string{"other"}}})
	}
	for i := 0; i < 2500*e.scale; i++ {
		var id *string
		if !r.chance(1, 10) {
			s := c20RandString(r)
			if r.chance(1, 3) {
				s = pick(r, []string{"tenant-1", "a", "A.b", "x_y"})
			}
			if r.chance(1, 12) {
				s = ""
			}
			id = &s
		}
		n := r.intn(7)
		st := make([]c20Stage, n)
		for j := range st {
			st[j] = c20RandStage(r, id)
		}
		c20IChain(e, id, st)
	}
	// 7. tunnelled requests whose header was not injected from the context
	r3 := newRng(e.seed, 23)
	hdrs := [][]string{nil, {""}, {"a"}, {"other"}, {"a", "other"}, {"", "a"}, {"a|b"}, {"bad/id"}, {"a:k=v"}}
	for _, idp := range []*string{nil, c20P("a"), c20P("other"), c20P("")} {
		for _, h := range hdrs {
			for _, in := range []byte{'e', 't', 'a'} {
				for _, st := range []string{"", "stale"} {
					c20TunnelCase(e, idp, h, in, st)
				}
			}
		}
	}
	for i := 0; i < 300*e.scale; i++ {
		var idp *string
		if !r3.chance(1, 4) {
			idp = c20P(c20RandString(r3))
		}
		var h []string
		if !r3.chance(1, 4) {
			h = []string{c20RandString(r3)}
			if r3.chance(1, 4) {
				h = append(h, "other")
			}
		}
		c20TunnelCase(e, idp, h, pick(r3, []byte{'e', 't', 'a'}), pick(r3, []string{"", "stale"}))
	}
	// 8. contexts built from both keys; user-id header functions; LogWith
	r4 := newRng(e.seed, 24)
	vals := []string{"", "a", "u1", "other"}
	uhdrs := [][]string{nil, {""}, {"a"}, {"u1"}, {"", "u1"}, {"u1", "a"}}
	var recB func(prefix []string, depth int)
	recB = func(prefix []string, depth int) {
		for _, h := range uhdrs {
			c20CtxCase(e, prefix, h)
		}
		if depth == 0 {
			return
		}
		for _, k := range []string{"o", "u"} {
			for _, v := range []string{"", "a", "u1"} {
				recB(append(append([]string{}, prefix...), k+v), depth-1)
			}
		}
	}
	recB(nil, 2)
	for i := 0; i < 400*e.scale; i++ {
		n := r4.intn(5)
		b := make([]string, n)
		for j := range b {
			b[j] = pick(r4, []string{"o", "u"}) + pick(r4, vals)
			if r4.chance(1, 5) {
				b[j] = b[j][:1] + c20RandString(r4)
			}
		}
		c20CtxCase(e, b, pick(r4, uhdrs))
	}
	// 9. JoinTenantIDs / TenantIDsFromOrgID / MultiResolver: exhaustive lists of length <= 3 over a
	// small pool, normalised outputs of TenantIDs re-joined, random lists
	pool := []string{"a", "b", "A.b", "", "..", "a|b", "a:k=v", "bad/id"}
	var recJ func(prefix []string, depth int)
	recJ = func(prefix []string, depth int) {
		c20JoinCase(e, prefix)
		if depth == 0 {
			return
		}
		for _, p := range pool {
			recJ(append(append([]string{}, prefix...), p), depth-1)
		}
	}
	recJ(nil, 3)
	r5 := newRng(e.seed, 25)
	for i := 0; i < 600*e.scale; i++ {
		s := c20RandString(r5)
		if ts, err := tenant.TenantIDsFromOrgID(s); err == nil && r5.chance(2, 3) {
			c20JoinCase(e, ts)
			continue
		}
		n := r5.intn(5)
		l := make([]string, n)
		for j := range l {
			l[j] = pick(r5, []string{"a", "b", "c", "tenant-1", "x_y", "", ".", "t!", strings.Repeat("q", 150), strings.Repeat("q", 151)})
		}
		c20JoinCase(e, l)
	}
}

func c20P(s string) *string { return &s }

// ---- C20.edge: every entry point alone, on carriers the chains never produce (no id, empty id,
// several ids, conflicting ids); observes whether the continuation (handler / invoker / streamer /
// next / the caller on a nil error) RAN and which identifier(s) it SAW.

func c20CarrierStr(vals []string) string {
	switch {
	case vals == nil:
		return "none"
	case len(vals) == 0:
		return "empty"
	}
	return hxs(vals)
}

func c20EdgeEmit(e *env, entry string, id *string, carrier []string, ran bool, seen string, err error) {
	ids := "none"
	if id != nil {
		ids = hx(*id)
	}
	r := "0"
	if ran {
		r = "1"
	} else {
		seen = "x"
	}
	e.emit("C20.edge", entry, ids+" "+c20CarrierStr(carrier), "ran="+r+" seen="+seen+" err="+c20ErrClass(err))
}

// receivers: id = identifier the receiving side's context already holds (stale), carrier = header / metadata values.
func c20EdgeRecv(e *env, kind, which byte, stale *string, carrier []string) {
	base := context.Background()
	if stale != nil {
		base = user.InjectOrgID(base, *stale)
	}
	ran := false
	seen := "none"
	var err error
	if kind == 'G' {
		md := metadata.MD{"other-key": []string{"v"}}
		if carrier != nil {
			md["x-scope-orgid"] = append([]string{}, carrier...)
		}
		in := metadata.NewIncomingContext(base, md)
		switch which {
		case 'e':
			var c context.Context
			_, c, err = user.ExtractFromGRPCRequest(in)
			if err == nil {
				ran, seen = true, c20OrgOf(c)
			}
		case 'u':
			_, err = middleware.ServerUserHeaderInterceptor(in, nil, nil, func(c context.Context, _ interface{}) (interface{}, error) {
				ran, seen = true, c20OrgOf(c)
				return nil, nil
			})
		default:
			err = middleware.StreamServerUserHeaderInterceptor(nil, c20FakeServerStream{ctx: in}, nil, func(_ interface{}, ss grpc.ServerStream) error {
				ran, seen = true, c20OrgOf(ss.Context())
				return nil
			})
		}
	} else {
		req := httptest.NewRequest("GET", "http://example/p", nil).WithContext(base)
		if carrier != nil {
			req.Header[c20OrgKey] = append([]string{}, carrier...)
		}
		switch which {
		case 'e':
			var c context.Context
			_, c, err = user.ExtractOrgIDFromHTTPRequest(req)
			if err == nil {
				ran, seen = true, c20OrgOf(c)
			}
		case 't':
			var c context.Context
			_, c, err = tenant.ExtractTenantIDFromHTTPRequest(req)
			if err == nil {
				ran, seen = true, c20OrgOf(c)
			}
		default:
			rec := httptest.NewRecorder()
			middleware.AuthenticateUser.Wrap(http.HandlerFunc(func(_ http.ResponseWriter, r *http.Request) {
				ran, seen = true, c20OrgOf(r.Context())
			})).ServeHTTP(rec, req)
			if rec.Code == http.StatusUnauthorized && strings.TrimSpace(rec.Body.String()) == user.ErrNoOrgID.Error() {
				err = user.ErrNoOrgID
			} else if rec.Code != http.StatusOK {
				err = fmt.Errorf("middleware answered %d %s", rec.Code, rec.Body.String())
			}
		}
	}
	c20EdgeEmit(e, "R"+string(kind)+string(which), stale, carrier, ran, seen, err)
}

// senders: id = identifier in the sending context, carrier = pre-existing header / outgoing metadata values.
func c20EdgeSend(e *env, kind, which byte, id *string, carrier []string) {
	ctx := context.Background()
	if id != nil {
		ctx = user.InjectOrgID(ctx, *id)
	}
	ran := false
	seen := "none"
	var err error
	mdOf := func(c context.Context) string {
		md, _ := metadata.FromOutgoingContext(c)
		v, ok := md["x-scope-orgid"]
		if !ok {
			return "none"
		}
		return c20CarrierStr(v)
	}
	if kind == 'G' {
		base := ctx
		if carrier != nil {
			base = metadata.NewOutgoingContext(ctx, metadata.MD{"x-scope-orgid": append([]string{}, carrier...)})
		}
		switch which {
		case 'i':
			var out context.Context
			out, err = user.InjectIntoGRPCRequest(base)
			if err == nil {
				ran, seen = true, mdOf(out)
			}
		case 'u':
			err = middleware.ClientUserHeaderInterceptor(base, "/m", nil, nil, nil, func(c context.Context, _ string, _, _ interface{}, _ *grpc.ClientConn, _ ...grpc.CallOption) error {
				ran, seen = true, mdOf(c)
				return nil
			})
		default:
			_, err = middleware.StreamClientUserHeaderInterceptor(base, &grpc.StreamDesc{}, nil, "/m", func(c context.Context, _ *grpc.StreamDesc, _ *grpc.ClientConn, _ string, _ ...grpc.CallOption) (grpc.ClientStream, error) {
				ran, seen = true, mdOf(c)
				return nil, nil
			})
		}
	} else {
		req := httptest.NewRequest("GET", "http://example/p", nil)
		if carrier != nil {
			req.Header[c20OrgKey] = append([]string{}, carrier...)
		}
		err = user.InjectOrgIDIntoHTTPRequest(ctx, req)
		if err == nil {
			ran = true
			if v, ok := req.Header[c20OrgKey]; ok {
				seen = c20CarrierStr(v)
			}
		}
	}
	c20EdgeEmit(e, "S"+string(kind)+string(which), id, carrier, ran, seen, err)
}

func runC20Edge(e *env) {
	gCar := [][]string{nil, {}, {""}, {"a"}, {"a", "a"}, {"a", "b"}, {"", "a"}, {"a|b"}, {"bad/id"}, {"a", "b", "c"}}
	hCar := [][]string{nil, {""}, {"a"}, {"", "a"}, {"a", "b"}, {"a|b"}, {"bad/id"}, {"a:k=v"}, {"..", "a"}}
	ids := []*string{nil, c20P("a"), c20P(""), c20P("other")}
	for _, w := range []byte{'e', 'u', 's'} {
		for _, c := range gCar {
			for _, st := range []*string{nil, c20P("stale")} {
				c20EdgeRecv(e, 'G', w, st, c)
			}
			for _, id := range ids {
				c20EdgeSend(e, 'G', map[byte]byte{'e': 'i', 'u': 'u', 's': 's'}[w], id, c)
			}
		}
	}
	for _, w := range []byte{'e', 't', 'a'} {
		for _, c := range hCar {
			for _, st := range []*string{nil, c20P("stale")} {
				c20EdgeRecv(e, 'H', w, st, c)
			}
		}
	}
	for _, c := range hCar {
		for _, id := range ids {
			c20EdgeSend(e, 'H', 'h', id, c)
		}
	}
	r := newRng(e.seed, 26)
	for i := 0; i < 800*e.scale; i++ {
		var id *string
		if !r.chance(1, 3) {
			s := c20RandString(r)
			if r.chance(1, 2) {
				s = pick(r, []string{"a", "tenant-1", "", "other"})
			}
			id = &s
		}
		var car []string
		if !r.chance(1, 4) {
			n := r.intn(4)
			car = make([]string, n)
			for j := range car {
				car[j] = pick(r, []string{"a", "", "other", "tenant-1", "a|b"})
				if id != nil && r.chance(1, 2) {
					car[j] = *id
				}
				if r.chance(1, 8) {
					car[j] = c20RandString(r)
				}
			}
		}
		kind := pick(r, []byte{'G', 'H'})
		if kind == 'H' && car != nil && len(car) == 0 {
			car = nil
		}
		if r.chance(1, 2) {
			w := pick(r, []byte{'e', 'u', 's'})
			if kind == 'H' {
				w = pick(r, []byte{'e', 't', 'a'})
			}
			c20EdgeRecv(e, kind, w, id, car)
		} else {
			w := pick(r, []byte{'i', 'u', 's'})
			if kind == 'H' {
				w = 'h'
			}
			c20EdgeSend(e, kind, w, id, car)
		}
	}
}
