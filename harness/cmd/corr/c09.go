package main

// C09: crash at every write boundary of scripted scenarios, store faults, tokens-file leftovers.
// Uses the world / recorder / event machinery of c08.go. Lines: `C09.run <case> <cfgs> <files> <store> <steps> <expect>`
// where <expect> lists the node indices that must have recovered to ACTIVE at the end ("-" = none).

import (
	"context"
	"errors"
	"os"
	"os/exec"
	"os/signal"
	"path/filepath"
	"runtime"
	"sort"
	"strconv"
	"strings"
	"sync"
	"syscall"
	"time"

	"github.com/grafana/dskit/ring"
)

func init() {
	register("C09", runC09)
	register("C09.filechild", c09FileChild)
}

// c09FileChild runs in a CHILD process: `corr C09.filechild <path> <first> <n> <limit>` rewrites the tokens file
// with n tokens first, first+7, ... under RLIMIT_FSIZE=limit (0 = unlimited) with SIGXFSZ ignored, so that a
// write beyond the limit stops after `limit` bytes with EFBIG (disk full / quota). Prints the error class.
func c09FileChild(e *env) {
	if len(e.args) != 4 {
		e.emit("usage")
		return
	}
	first, _ := strconv.Atoi(e.args[1])
	n, _ := strconv.Atoi(e.args[2])
	limit, _ := strconv.Atoi(e.args[3])
	if limit > 0 {
		signal.Ignore(syscall.SIGXFSZ)
		lim := syscall.Rlimit{Cur: uint64(limit), Max: uint64(limit)}
		if err := syscall.Setrlimit(syscall.RLIMIT_FSIZE, &lim); err != nil {
			e.emit("setrlimit-failed")
			return
		}
	}
	err := c09FileTokens(first, n).StoreToFile(e.args[0])
	switch {
	case err == nil:
		e.emit("ok")
	case errors.Is(err, syscall.EFBIG):
		e.emit("efbig")
	default:
		e.emit("err")
	}
}

func c09FileTokens(first, n int) ring.Tokens {
	t := ring.Tokens{}
	for i := 0; i < n; i++ {
		t = append(t, uint32(first+7*i))
	}
	return t
}

// c09FileCases: an existing good tokens file is rewritten by a child process whose write succeeds or fails after a
// partial write; the parent then looks at what is on disk.
// Line: C09.file <case> <old tokens> <new tokens> <limit> <child error class> <file loads 0|1> <old|new|other> <tmp left 0|1>
func c09FileCases(dir string) func() [][]string {
	// stale > 0: an EARLIER interrupted write left a temporary file of that many bytes behind (kept "for debugging" by
	// design); the temporary file of the next store must start from scratch
	type fc struct{ oldN, newN, limit, stale int }
	cases := []fc{{3, 40, 100, 0}, {3, 60, 100, 0}, {20, 30, 100, 0}, {3, 5, 100, 0}, {3, 40, 0, 0}, {0, 40, 100, 0}, {3, 25, 64, 0}, {12, 100, 256, 0}, {3, 18, 100, 0}, {3, 19, 100, 0},
		{3, 5, 0, 400}, {8, 2, 0, 90}, {3, 5, 100, 400}, {3, 40, 100, 700}, {3, 12, 0, 20}}
	lines := make([][]string, len(cases))
	var wg sync.WaitGroup
	for k, c := range cases {
		wg.Add(1)
		go func(k int, c fc) {
			defer wg.Done()
			path := filepath.Join(dir, "filecase-"+itoa(k)+".tokens")
			os.Remove(path)
			os.Remove(path + ".tmp")
			old := c09FileTokens(5, c.oldN)
			if err := old.StoreToFile(path); err != nil {
				panic(err)
			}
			if c.stale > 0 {
				// what a crashed earlier write of a longer token list leaves: a prefix of its JSON document
				junk := []byte("{\"tokens\":[" + strings.Repeat("4000000007,", c.stale/11+1))
				if err := os.WriteFile(path+".tmp", junk[:c.stale], 0o600); err != nil {
					panic(err)
				}
			}
			nw := c09FileTokens(100000, c.newN)
			out, err := exec.Command(os.Args[0], "C09.filechild", path, "100000", itoa(c.newN), itoa(c.limit)).Output()
			class := strings.TrimSpace(string(out))
			if err != nil && class == "" {
				class = "child-failed"
			}
			loads, which := "1", "other"
			got, lerr := ring.LoadTokensFromFile(path)
			if lerr != nil {
				loads = "0"
			} else if got.Equals(append(ring.Tokens{}, old...)) && len(got) == len(old) {
				which = "old"
			} else if got.Equals(append(ring.Tokens{}, nw...)) && len(got) == len(nw) {
				which = "new"
			}
			tmp := "0"
			if _, err := os.Stat(path + ".tmp"); err == nil {
				tmp = "1"
			}
			lines[k] = []string{"C09.file", "file/k" + itoa(k), u32s(old), u32s(nw), itoa(c.limit), class, loads, which, tmp, itoa(c.stale)}
			os.Remove(path)
			os.Remove(path + ".tmp")
		}(k, c)
	}
	return func() [][]string { wg.Wait(); return lines }
}

// c09WipeObserve: the ring is lost (key deleted, or reset to an empty descriptor) while the subject is JOINING in its
// observe period; the observe timer fires BEFORE the next heartbeat (or after it), then the loops go on to ACTIVE.
func c09WipeObserve(seed uint64, caseNo int, dir string) (string, bool) {
	r := newRng(seed, uint64(80000+caseNo))
	w := newWorld(r)
	defer w.close()
	kind := []byte{'L', 'L', 'L', 'B'}[caseNo%4]
	sub := lcfg{kind: kind, id: "i0", addr: "a0:1", zone: "z1", numTokens: 1 + r.intn(4), observe: true, hasFile: r.chance(1, 2), hbTimeout: 61,
		readinessRing: r.chance(1, 2), registerState: ring.JOINING, unregister: true}
	sc := c09Scen{name: "wipeobs", subject: sub}
	files, init0, cfgs := c09Prepare(w, sc, r, dir, caseNo)
	defer c09Cleanup(w)
	step := func(ev, arg string) string { w.vnow += 2; return w.fire(0, ev, arg, "n") }
	nd := w.nodes[0]
	if kind == 'L' {
		step("init", "s7")
		step("join", "-")
	} else {
		step("init", "-")
	}
	if r.chance(1, 2) {
		step("hb", "-")
	}
	// 0: delete, timer first; 1: empty desc, timer first; 2: delete, heartbeat first; 3: empty desc, heartbeat first;
	// 4: PARTIAL loss (the store comes back with the subject's entry but without the first / without all of its tokens), timer
	//    first — the only history on which verifyTokens has to top up an entry that is still there
	mode := (caseNo / 4) % 5
	if mode == 4 {
		w.envSteal(sub.id, (caseNo/20)%2 == 1)
	} else if mode%2 == 0 {
		w.wipe()
	} else {
		w.setStore(ring.NewDesc())
		w.steps = append(w.steps, strings.Join([]string{"E", "set", "-", "n", strconv.FormatInt(w.vnow, 10), "-", "x", "ok", "-", "-"}, "!"))
	}
	if mode == 2 || mode == 3 {
		step("hb", "-")
	}
	done := false
	for t := 0; t < 4 && !done; t++ {
		if step("verify", "-") == "yes" {
			if kind == 'L' {
				step("cs", "A")
			} else {
				step("ontok", "-")
				step("cs", "A")
			}
			done = true
		} else {
			step("hb", "-")
		}
	}
	step("hb", "-")
	if nd.lc != nil {
		step("ready", "-")
	}
	if w.bad {
		return "", false
	}
	return c09Line(w, "wipeobs/m"+itoa(mode)+"/k"+itoa(caseNo), cfgs, files, init0, "0"), true
}

type c09op struct {
	node    int
	ev, arg string
	fault   string
}

// c09Scen is one scripted scenario for a subject lifecycler (node 0) with optional neighbours.
type c09Scen struct {
	name    string
	subject lcfg
	others  []lcfg
	ring    func(r *rng, used map[uint32]bool, numTokens int) *ring.Desc // initial ring (virtual times)
	file    string                                                       // "", "full", "short", "corrupt", "tmpgarbage", "tmpfull"
	setup   []c09op                                                      // run without faults before the scripted part (not crash-counted)
	script  []c09op                                                      // crash points are the CAS calls of node 0 in here
}

func c09Neighbours(r *rng, used map[uint32]bool, n int) *ring.Desc {
	d := ring.NewDesc()
	for k := 0; k < n; k++ {
		id := "x" + itoa(k)
		i := ring.InstanceDesc{Id: id, Addr: "ax" + itoa(k) + ":1", State: ring.ACTIVE, Timestamp: c08V0 - 2, RegisteredTimestamp: c08V0 - 1000}
		for j := 0; j < 3; j++ {
			for {
				t := uint32(r.intn(40))
				if !used[t] {
					used[t] = true
					i.Tokens = append(i.Tokens, t)
					break
				}
			}
		}
		sort.Slice(i.Tokens, func(a, b int) bool { return i.Tokens[a] < i.Tokens[b] })
		d.Ingesters[id] = i
	}
	return d
}

// c09Continue drives the (re)started subject to ACTIVE the way the real loops would. With hbEarly the heartbeat
// ticker fires before the join timer and between the observe rounds (HeartbeatPeriod < JoinAfter / ObservePeriod).
func c09Continue(w *world, idx int, hbEarly bool) {
	nd := w.nodes[idx]
	if w.fire(idx, "init", pickInitArg(nd), "n") != "ok" {
		return
	}
	if nd.cfg.kind == 'L' {
		if hbEarly {
			w.vnow += 2
			w.fire(idx, "hb", "-", "n")
			w.vnow += 2
		}
		w.fire(idx, "join", "-", "n")
		for t := 0; t < 3 && nd.lc.GetState() == ring.JOINING; t++ {
			w.vnow += 2
			if hbEarly {
				w.fire(idx, "hb", "-", "n")
			}
			if w.fire(idx, "verify", "-", "n") == "yes" {
				w.fire(idx, "cs", "A", "n")
			}
		}
	} else {
		if nd.cfg.observe && len(nd.blc.GetTokens()) > 0 {
			for t := 0; t < 3; t++ {
				w.vnow += 2
				if hbEarly {
					w.fire(idx, "hb", "-", "n")
				}
				if w.fire(idx, "verify", "-", "n") == "yes" {
					break
				}
			}
		}
		w.fire(idx, "ontok", "-", "n")
		if nd.blc.GetState() != ring.ACTIVE {
			w.fire(idx, "cs", "A", "n")
		}
	}
	w.vnow += 2
	w.fire(idx, "hb", "-", "n")
	if nd.cfg.kind == 'L' {
		w.fire(idx, "ready", "-", "n")
	}
}

func pickInitArg(nd *node) string {
	if nd.cfg.kind == 'L' {
		return "s7"
	}
	return "-"
}

func c09Scenarios() []c09Scen {
	var out []c09Scen
	for _, kind := range []byte{'L', 'B'} {
		for _, observe := range []bool{false, true} {
			for _, hasFile := range []bool{false, true} {
				base := lcfg{kind: kind, id: "i0", addr: "a0:1", zone: "z1", numTokens: 3, observe: observe, hasFile: hasFile, hbTimeout: 61,
					readinessRing: false, registerState: ring.ACTIVE, unregister: true}
				tag := string(kind) + b01(observe) + b01(hasFile)
				// start of life: init (+ join, observe, activate), one heartbeat
				var join []c09op
				if kind == 'L' {
					join = []c09op{{0, "init", "s7", "n"}, {0, "join", "-", "n"}}
					if observe {
						join = append(join, c09op{0, "verify", "-", "n"}, c09op{0, "cs", "A", "n"})
					}
				} else {
					join = []c09op{{0, "init", "-", "n"}}
					if observe {
						join = append(join, c09op{0, "verify", "-", "n"})
					}
					join = append(join, c09op{0, "ontok", "-", "n"})
				}
				join = append(join, c09op{0, "hb", "-", "n"})
				out = append(out, c09Scen{name: "fresh-" + tag, subject: base, script: join})
				if kind == 'B' {
					bj := base
					bj.registerState = ring.JOINING
					out = append(out, c09Scen{name: "freshJ-" + tag, subject: bj, script: append(append([]c09op{}, join[:len(join)-1]...), c09op{0, "cs", "A", "n"}, c09op{0, "hb", "-", "n"})})
				}
				if hasFile {
					out = append(out, c09Scen{name: "file-" + tag, subject: base, file: "full", script: join})
					out = append(out, c09Scen{name: "fileshort-" + tag, subject: base, file: "short", script: join})
					out = append(out, c09Scen{name: "filetmp-" + tag, subject: base, file: "tmpgarbage", script: join})
				}
				// graceful leave with / without unregistering, then the process exits
				stop := []c09op{{0, "cs", "L", "n"}, {0, "hb", "-", "n"}}
				if kind == 'B' {
					stop = []c09op{{0, "stopd", "-", "n"}, {0, "hb", "-", "n"}}
				}
				out = append(out, c09Scen{name: "leave-" + tag, subject: base, setup: join, script: append(append([]c09op{}, stop...), c09op{0, "unreg", "-", "n"})})
				keep := base
				keep.unregister = false
				out = append(out, c09Scen{name: "leavekeep-" + tag, subject: keep, setup: join, script: stop})
				if kind == 'L' && !observe {
					// token hand-over seen from the LEAVING side: node 1 claims the subject's tokens while the subject is
					// still alive and heartbeating; afterwards the subject exits and is restarted
					taker := lcfg{kind: 'L', id: "i1", addr: "a1:1", zone: "z1", numTokens: 3, hbTimeout: 61, registerState: ring.ACTIVE, unregister: true}
					out = append(out, c09Scen{name: "handover-" + tag, subject: keep, others: []lcfg{taker}, setup: join,
						script: []c09op{{0, "cs", "L", "n"}, {0, "hb", "-", "n"}, {1, "init", "s7", "n"}, {1, "xcs", "J", "n"}, {1, "claim", "i0", "n"},
							{0, "hb", "-", "n"}, {1, "xcs", "A", "n"}, {1, "hb", "-", "n"}, {0, "hb", "-", "n"}, {1, "hb", "-", "n"}}})
					// token hand-over: the subject claims the tokens of a LEAVING neighbour while JOINING
					out = append(out, c09Scen{name: "claim-" + tag, subject: base,
						ring: func(r *rng, used map[uint32]bool, nt int) *ring.Desc {
							d := ring.NewDesc()
							i := ring.InstanceDesc{Id: "old", Addr: "ao:1", State: ring.LEAVING, Timestamp: c08V0 - 2, RegisteredTimestamp: c08V0 - 500}
							for j := 0; j < nt; j++ {
								t := uint32(50 + 2*j)
								used[t] = true
								i.Tokens = append(i.Tokens, t)
							}
							d.Ingesters["old"] = i
							return d
						},
						script: []c09op{{0, "init", "s7", "n"}, {0, "xcs", "J", "n"}, {0, "claim", "old", "n"}, {0, "xcs", "A", "n"}, {0, "hb", "-", "n"}}})
				}
			}
		}
	}
	return out
}

type c09Spec struct {
	scen      int
	variant   int
	crashAt   int
	crashMode string
	faultKind string // for fault cases
}

func c09Prepare(w *world, sc c09Scen, r *rng, dir string, caseNo int) (files []string, init0 string, cfgs []lcfg) {
	used := map[uint32]bool{}
	cfgs = append([]lcfg{sc.subject}, sc.others...)
	nn := r.intn(3)
	d := c09Neighbours(r, used, nn)
	if sc.ring != nil {
		for id, i := range sc.ring(r, used, sc.subject.numTokens).Ingesters {
			d.Ingesters[id] = i
		}
	}
	for _, c := range cfgs {
		nd := w.addNode(c, dir, caseNo)
		nd.gen.space = 64
		f := "a"
		if c.hasFile && c.id == sc.subject.id {
			mk := func(n int) ring.Tokens {
				var t ring.Tokens
				for j := 0; j < n; j++ {
					for {
						x := uint32(r.intn(64))
						if !used[x] {
							used[x] = true
							t = append(t, x)
							break
						}
					}
				}
				sort.Sort(t)
				return t
			}
			switch sc.file {
			case "full":
				_ = mk(c.numTokens).StoreToFile(nd.path)
			case "short":
				_ = mk(c.numTokens - 1).StoreToFile(nd.path)
			case "corrupt":
				_ = os.WriteFile(nd.path, []byte("{\"tokens\":[1,"), 0o600)
			case "tmpgarbage": // a previous process died while writing the temporary file
				_ = mk(c.numTokens).StoreToFile(nd.path)
				_ = os.WriteFile(nd.path+".tmp", []byte("{\"tokens\":["+strings.Repeat("4000000007,", 30)), 0o600)
			}
			f = nd.fileEnc()
		}
		files = append(files, f)
	}
	if len(d.Ingesters) == 0 {
		w.setStore(nil)
	} else {
		w.setStore(d)
	}
	return files, w.tracked, cfgs
}

func c09RunOps(w *world, ops []c09op) bool {
	for _, o := range ops {
		nd := w.nodes[o.node]
		if nd.lc == nil && nd.blc == nil && o.ev != "init" {
			return false
		}
		ev := o.ev
		if nd.cfg.kind == 'B' && ev == "xcs" {
			ev = "cs"
		}
		if w.fire(o.node, ev, o.arg, o.fault) == "crash" {
			return false
		}
		w.vnow += 2
	}
	return true
}

func c09Line(w *world, name string, cfgs []lcfg, files []string, init0 string, expect string) string {
	var ce []string
	for _, c := range cfgs {
		ce = append(ce, c.enc())
	}
	return strings.Join([]string{"C09.run", name, strings.Join(ce, ";"), strings.Join(files, ";"), init0, strings.Join(w.steps, " "), expect}, "\t")
}

func c09Cleanup(w *world) {
	for _, nd := range w.nodes {
		os.Remove(nd.path)
		os.Remove(nd.path + ".tmp")
	}
}

// c09CrashCase: scenario `sc`, crash before/after the commit of the k-th CAS call of the subject, then restart.
// Returns ok=false when the run must be repeated (clock), done=true when k exceeds the scenario's CAS count.
func c09CrashCase(seed uint64, caseNo int, dir string, scNo int, sc c09Scen, variant, k int, mode string) (line string, ok, done bool) {
	r := newRng(seed, uint64(50000+scNo*64+variant))
	w := newWorld(r)
	defer w.close()
	files, init0, cfgs := c09Prepare(w, sc, r, dir, caseNo)
	defer c09Cleanup(w)
	if !c09RunOps(w, sc.setup) {
		return "", !w.bad, true
	}
	subj := w.nodes[0]
	subj.casSeen = 0
	subj.crashAt, subj.crashMode = k, mode
	completed := c09RunOps(w, sc.script)
	subj.crashAt = 0
	if completed {
		if k > 0 {
			return "", !w.bad, true // fewer than k CAS calls: enumeration of this scenario is finished
		}
		// k == 0: no crash inside; the process is killed after the script (clean exit) and restarted
		w.crash(0)
	}
	w.vnow += 4
	c09Continue(w, 0, variant%2 == 1)
	if w.bad {
		return "", false, false
	}
	name := "crash/" + sc.name + "/v" + itoa(variant) + "/k" + itoa(k) + mode
	return c09Line(w, name, cfgs, files, init0, "0"), true, false
}

// c09FaultCase: a running, ACTIVE subject; a window of failing calls, a wipe, or both; then heartbeats.
func c09FaultCase(seed uint64, caseNo int, dir string) (string, bool) {
	r := newRng(seed, uint64(90000+caseNo))
	w := newWorld(r)
	defer w.close()
	kind := pick(r, []byte{'L', 'B'})
	sub := lcfg{kind: kind, id: "i0", addr: "a0:1", zone: "z1", numTokens: 1 + r.intn(3), observe: false, hasFile: r.chance(1, 2), hbTimeout: 61,
		readinessRing: r.chance(1, 2), registerState: ring.ACTIVE, unregister: true}
	sc := c09Scen{name: "fault", subject: sub}
	if kind == 'L' && r.chance(1, 3) {
		sc.ring = func(r *rng, used map[uint32]bool, nt int) *ring.Desc {
			d := ring.NewDesc()
			i := ring.InstanceDesc{Id: "old", Addr: "ao:1", State: ring.LEAVING, Timestamp: c08V0 - 2, RegisteredTimestamp: c08V0 - 500, Tokens: []uint32{50, 52}}
			used[50], used[52] = true, true
			d.Ingesters["old"] = i
			return d
		}
	}
	files, init0, cfgs := c09Prepare(w, sc, r, dir, caseNo)
	defer c09Cleanup(w)
	c09Continue(w, 0, caseNo%2 == 1)
	nd := w.nodes[0]
	if nd.lc == nil && nd.blc == nil {
		return "", !w.bad
	}
	leaving := false
	nsteps := 3 + r.intn(8)
	for s := 0; s < nsteps && !w.bad; s++ {
		w.vnow += pick(r, []int64{2, 2, 4, 10, 100})
		fault := pick(r, []string{"n", "n", "fb", "fb", "fc"})
		switch x := r.intn(12); {
		case x < 2:
			w.wipe()
		case x < 6:
			w.fire(0, "hb", "-", fault)
		case x < 7:
			w.fire(0, "ro", b01(r.chance(1, 2)), fault)
		case x < 8:
			if !leaving {
				if kind == 'L' {
					w.fire(0, "cs", "L", fault)
				} else {
					w.fire(0, "stopd", "-", fault)
				}
				leaving = fault == "n"
			}
		case x < 9:
			if kind == 'L' {
				w.fire(0, "ready", "-", pick(r, []string{"n", "fb"}))
			} else {
				w.fire(0, "verify", "-", fault)
			}
		case x < 10:
			if kind == 'L' && sc.ring != nil {
				cur := w.current()
				if cur != nil {
					if _, ok := cur.Ingesters["i0"]; ok {
						w.fire(0, "claim", "old", fault)
					}
				}
			} else {
				w.fire(0, "hb", "-", fault)
			}
		default:
			w.fire(0, "hb", "-", "n")
		}
	}
	// the window closes: two good heartbeats
	w.vnow += 2
	w.fire(0, "hb", "-", "n")
	w.vnow += 2
	w.fire(0, "hb", "-", "n")
	if w.bad {
		return "", false
	}
	return c09Line(w, "fault/k"+itoa(caseNo), cfgs, files, init0, "-"), true
}

// envRemove deletes the entries `ids` from the ring (an operator "forget", a store that lost part of its content).
func (w *world) envRemove(ids ...string) {
	cur := w.current()
	if cur == nil {
		return
	}
	for _, id := range ids {
		delete(cur.Ingesters, id)
	}
	_ = w.inner.CAS(context.Background(), c08Key, func(interface{}) (interface{}, bool, error) { return cur, false, nil })
	w.tracked = w.encV(cur)
	w.steps = append(w.steps, strings.Join([]string{"E", "set", w.tracked, "n", strconv.FormatInt(w.vnow, 10), "-", "x", "ok", "-", "-"}, "!"))
}

// c09WipeOther: the own entry is lost and a handler OTHER than the heartbeat is the first to write afterwards:
// (0) the ring is wiped between initRing and the join timer; (1) the entry of an ACTIVE lifecycler is removed and
// ClaimTokensFor runs before the next heartbeat (`Desc.ClaimTokens` then works on a zero-valued entry).
func c09WipeOther(seed uint64, caseNo int, dir string) (string, bool) {
	r := newRng(seed, uint64(85000+caseNo))
	w := newWorld(r)
	defer w.close()
	which := caseNo % 2
	sub := lcfg{kind: 'L', id: "i0", addr: "a0:1", zone: "z1", numTokens: 1 + r.intn(3), observe: r.chance(1, 2), hasFile: r.chance(1, 2),
		hbTimeout: 61, readinessRing: r.chance(1, 2), registerState: ring.ACTIVE, unregister: true}
	sc := c09Scen{name: "wipeother", subject: sub}
	if which == 1 {
		sc.ring = func(r *rng, used map[uint32]bool, nt int) *ring.Desc {
			d := ring.NewDesc()
			used[50], used[52] = true, true
			d.Ingesters["old"] = ring.InstanceDesc{Id: "old", Addr: "ao:1", State: ring.LEAVING, Timestamp: c08V0 - 2, RegisteredTimestamp: c08V0 - 500, Tokens: []uint32{50, 52}}
			return d
		}
	}
	files, init0, cfgs := c09Prepare(w, sc, r, dir, caseNo)
	defer c09Cleanup(w)
	step := func(ev, arg string) string { w.vnow += 2; return w.fire(0, ev, arg, "n") }
	expect := "-"
	if which == 0 {
		step("init", "s7")
		if r.chance(1, 2) {
			step("hb", "-")
		}
		w.vnow += 4
		if r.chance(1, 2) {
			w.wipe()
		} else {
			w.envRemove("i0")
		}
		step("join", "-")
		for t := 0; t < 3 && w.nodes[0].lc.GetState() == ring.JOINING; t++ {
			step("hb", "-")
			if step("verify", "-") == "yes" {
				step("cs", "A")
			}
		}
		step("hb", "-")
		expect = "0"
	} else {
		c09Continue(w, 0, r.chance(1, 2))
		w.vnow += 4
		w.envRemove("i0")
		step("claim", "old")
		step("hb", "-")
		step("hb", "-")
	}
	if w.bad {
		return "", false
	}
	return c09Line(w, "wipeother/"+[]string{"join", "claim"}[which]+"/k"+itoa(caseNo), cfgs, files, init0, expect), true
}

// c09TargetedFault: the store rejects exactly the JOINING->ACTIVE write at the end of the observe period, or the
// ACTIVE->LEAVING write at shutdown; then it accepts writes again and the heartbeat ticker goes on.
func c09TargetedFault(seed uint64, caseNo int, dir string) (string, bool) {
	r := newRng(seed, uint64(70000+caseNo))
	w := newWorld(r)
	defer w.close()
	which := caseNo % 2 // 0: activation write rejected, 1: leaving write rejected
	fault := []string{"fb", "fc"}[(caseNo/2)%2]
	sub := lcfg{kind: 'L', id: "i0", addr: "a0:1", zone: "z1", numTokens: 1 + r.intn(3), observe: which == 0 || r.chance(1, 2), hasFile: r.chance(1, 2),
		hbTimeout: 61, readinessRing: r.chance(1, 2), registerState: ring.ACTIVE, unregister: true}
	sc := c09Scen{name: "tfault", subject: sub}
	files, init0, cfgs := c09Prepare(w, sc, r, dir, caseNo)
	defer c09Cleanup(w)
	expect := "-"
	step := func(ev, arg, f string) string { w.vnow += 2; return w.fire(0, ev, arg, f) }
	if which == 0 {
		step("init", "s7", "n")
		step("join", "-", "n")
		if r.chance(1, 2) {
			step("hb", "-", "n")
		}
		if step("verify", "-", "n") == "yes" {
			step("cs", "A", fault) // rejected; the loop does not retry
		}
		for k := r.intn(2); k >= 0; k-- {
			step("hb", "-", fault) // the window may last a few more heartbeats
		}
		step("hb", "-", "n")
		step("hb", "-", "n")
		step("ready", "-", "n")
		expect = "0"
	} else {
		c09Continue(w, 0, r.chance(1, 2))
		step("cs", "L", fault) // stopping(): rejected, error only logged
		for k := r.intn(2); k >= 0; k-- {
			step("hb", "-", fault)
		}
		step("hb", "-", "n")
		step("hb", "-", "n")
	}
	if w.bad {
		return "", false
	}
	return c09Line(w, "tfault/"+[]string{"activate", "leave"}[which]+"-"+fault+"/k"+itoa(caseNo), cfgs, files, init0, expect), true
}

func runC09(e *env) {
	dir, err := os.MkdirTemp("", "verif-c09-")
	if err != nil {
		panic(err)
	}
	defer os.RemoveAll(dir)
	rounds := 1
	if !e.quick {
		rounds = 3
	}
	t0 := time.Now()
	outage := outageStart(rounds)
	fileCases := c09FileCases(dir) // child processes, concurrent with everything below // real-time start-up outage scenarios, concurrent with everything below
	scs := c09Scenarios()
	variants := 4 * e.scale
	// crash points: enumerated (every CAS call of every scenario, before and after the commit); the (scenario, variant)
	// enumerations are independent and run on all cores, output in enumeration order
	type job struct{ si, v int }
	var jobs []job
	for si := range scs {
		for v := 0; v < variants; v++ {
			jobs = append(jobs, job{si, v})
		}
	}
	results := make([][]string, len(jobs))
	next := make(chan int, len(jobs))
	for i := range jobs {
		next <- i
	}
	close(next)
	var wg sync.WaitGroup
	workers := runtime.NumCPU()
	if workers > 12 {
		workers = 12
	}
	for wk := 0; wk < workers; wk++ {
		wg.Add(1)
		go func() {
			defer wg.Done()
			for ji := range next {
				si, v := jobs[ji].si, jobs[ji].v
				sc := scs[si]
				for k := 0; k < 40; k++ {
					finished := false
					for mi, mode := range []string{"cb", "ca"} {
						if k == 0 && mode == "ca" {
							continue
						}
						caseNo := si*100000 + v*1000 + k*2 + mi // unique: names the tokens files
						for try := 0; try < 5; try++ {
							line, ok, done := c09CrashCase(e.seed, caseNo, dir, si, sc, v, k, mode)
							if !ok {
								continue
							}
							if done {
								finished = true
							} else {
								results[ji] = append(results[ji], line)
							}
							break
						}
					}
					if finished {
						break
					}
				}
			}
		}()
	}
	wg.Wait()
	if os.Getenv("VERIF_TIMING") != "" {
		println("crash enumeration done", time.Since(t0).String())
	}
	for _, ls := range results {
		for _, l := range ls {
			e.emit(strings.Split(l, "\t")...)
		}
	}
	nf := 1500 * e.scale
	if len(e.args) > 0 {
		nf, _ = strconv.Atoi(e.args[0])
	}
	c08Parallel(e, nf, "c09f", c09FaultCase)
	c08Parallel(e, 80*e.scale, "c09t", c09TargetedFault)
	c08Parallel(e, 120*e.scale, "c09w", c09WipeObserve)
	c08Parallel(e, 48*e.scale, "c09x", c09WipeOther)
	if os.Getenv("VERIF_TIMING") != "" {
		println("fault streams done", time.Since(t0).String())
	}
	for _, l := range fileCases() {
		e.emit(l...)
	}
	if os.Getenv("VERIF_TIMING") != "" {
		println("file cases done", time.Since(t0).String())
	}
	for _, l := range outage() {
		e.emit(strings.Split(l, "\t")...)
	}
}
