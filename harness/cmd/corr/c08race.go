package main

// C08 RACE stream: a CAS conflict during the registration of a BasicLifecycler. Lifecycler A registers through a kv.Client
// wrapper which, after A's callback has run for the first time and before the store compares, lets lifecycler B register
// (or another writer change the ring). A loses the compare-and-swap, the consul client re-runs A's callback on the fresh
// ring. Both use a DETERMINISTIC token generator ("lowest free tokens"), so a handler that reused what it computed on the
// stale ring would publish exactly the tokens B has just registered.
//
// Line: C08.race <case> <cfgA;cfgB> <initial store> <A first attempt> <B> <A second attempt> <final A> <final B>
// with an attempt = now!gen!in>out (as in C08.run), final = encoded remembered entry.

import (
	"context"
	"sort"
	"strconv"
	"strings"
	"time"

	"github.com/go-kit/log"

	"github.com/grafana/dskit/kv/consul"
	"github.com/grafana/dskit/ring"
)

// lowestFreeGen returns the n smallest tokens >= base that are not taken.
type lowestFreeGen struct {
	base  uint32
	calls []string
}

func (g *lowestFreeGen) GenerateTokens(n int, taken []uint32) ring.Tokens {
	used := map[uint32]bool{}
	for _, t := range taken {
		used[t] = true
	}
	out := ring.Tokens{}
	for c := g.base; len(out) < n; c++ {
		if !used[c] {
			out = append(out, c)
		}
	}
	sort.Sort(out)
	g.calls = append(g.calls, itoa(n)+"^"+u32s(taken)+"^"+u32s(out))
	return out
}
func (g *lowestFreeGen) CanJoin(map[string]ring.InstanceDesc) error { return nil }
func (g *lowestFreeGen) CanJoinEnabled() bool                       { return false }

type raceRec struct {
	w        *loopWorld
	id       string
	gen      *lowestFreeGen
	attempts []string
	between  func() // runs once, after the first callback invocation returned and before the store compares
}

func (r *raceRec) List(ctx context.Context, p string) ([]string, error) {
	return r.w.inner.List(ctx, p)
}
func (r *raceRec) Get(ctx context.Context, k string) (interface{}, error) {
	return r.w.inner.Get(ctx, k)
}
func (r *raceRec) Delete(ctx context.Context, k string) error { return r.w.inner.Delete(ctx, k) }
func (r *raceRec) WatchKey(ctx context.Context, k string, f func(interface{}) bool) {
	r.w.inner.WatchKey(ctx, k, f)
}
func (r *raceRec) WatchPrefix(ctx context.Context, p string, f func(string, interface{}) bool) {
	r.w.inner.WatchPrefix(ctx, p, f)
}
func (r *raceRec) CAS(ctx context.Context, key string, f func(in interface{}) (out interface{}, retry bool, err error)) error {
	return r.w.inner.CAS(ctx, key, func(in interface{}) (interface{}, bool, error) {
		r.gen.calls = r.gen.calls[:0]
		t0 := time.Now().Unix()
		inEnc := r.w.enc(in)
		out, retry, err := f(in)
		if time.Now().Unix() != t0 {
			r.w.bad = true
		}
		o := "nil"
		if err != nil {
			o = "err"
		} else if out != nil {
			o = "W" + r.w.enc(out)
		}
		g := "-"
		if len(r.gen.calls) == 1 {
			g = r.gen.calls[0]
		} else if len(r.gen.calls) > 1 {
			r.w.bad = true
		}
		r.attempts = append(r.attempts, strings.Join([]string{strconv.FormatInt(t0-r.w.base, 10), g, inEnc + ">" + o}, "!"))
		if r.between != nil {
			b := r.between
			r.between = nil
			b()
		}
		return out, retry, err
	})
}

func raceBuild(w *loopWorld, c lcfg, rec *raceRec) *ring.BasicLifecycler {
	lg := log.NewNopLogger()
	bcfg := ring.BasicLifecyclerConfig{ID: c.id, Addr: c.addr, Zone: c.zone, HeartbeatPeriod: time.Hour, HeartbeatTimeout: time.Minute,
		NumTokens: c.numTokens, RingTokenGenerator: rec.gen}
	var d ring.BasicLifecyclerDelegate = ring.NewInstanceRegisterDelegate(c.registerState, c.numTokens)
	d = ring.NewLeaveOnStoppingDelegate(d, lg)
	b, err := ring.NewBasicLifecycler(bcfg, "race", c08Key, rec, d, lg, nil)
	if err != nil {
		panic(err)
	}
	return b
}

func raceFinal(w *loopWorld, b *ring.BasicLifecycler, id string) string {
	c := b.VerifCurrent()
	if c == nil {
		return "-"
	}
	ring.VerifShiftInstance(c, time.Duration(w.base)*time.Second)
	return encInst(id, *c)
}

func c08RaceCase(seed uint64, caseNo int, _ string) (string, bool) {
	r := newRng(seed, uint64(600000+caseNo))
	inner, closer := consul.NewInMemoryClient(ring.GetCodec(), log.NewNopLogger(), nil)
	defer closer.Close()
	w := &loopWorld{inner: inner, tracked: "nil"}
	w.base = time.Now().Unix() - 1000
	ctx := context.Background()
	nt := 1 + r.intn(4)
	mk := func(k int) lcfg {
		return lcfg{kind: 'B', id: "i" + itoa(k), addr: "a" + itoa(k) + ":1", zone: pick(r, []string{"", "z1"}), numTokens: nt, hbTimeout: 61,
			readinessRing: true, registerState: pick(r, []ring.InstanceState{ring.ACTIVE, ring.ACTIVE, ring.JOINING}), unregister: true}
	}
	ca, cb := mk(0), mk(1)
	// the ring key exists already (the consul mock accepts any index for the first creation): neighbours, sometimes an old
	// entry of A with some tokens
	d0 := ring.NewDesc()
	now := time.Now().Unix()
	nx := 1 + r.intn(2)
	next := uint32(0)
	for k := 0; k < nx; k++ {
		i := ring.InstanceDesc{Id: "x" + itoa(k), Addr: "ax:1", State: ring.ACTIVE, Timestamp: now - 2, RegisteredTimestamp: now - 500}
		for j := 0; j < r.intn(3); j++ {
			i.Tokens = append(i.Tokens, next+uint32(r.intn(3)))
			next = i.Tokens[len(i.Tokens)-1] + 1
		}
		d0.Ingesters[i.Id] = i
	}
	if r.chance(1, 4) {
		d0.Ingesters[ca.id] = ring.InstanceDesc{Id: ca.id, Addr: ca.addr, Zone: ca.zone, State: ring.LEAVING, Timestamp: now - 4, RegisteredTimestamp: now - 300,
			Tokens: []uint32{100}}
	}
	_ = inner.CAS(ctx, c08Key, func(interface{}) (interface{}, bool, error) { return d0, false, nil })
	init0 := w.enc(d0)
	w.tracked = init0
	ga, gb := &lowestFreeGen{}, &lowestFreeGen{}
	ra := &raceRec{w: w, id: ca.id, gen: ga}
	rb := &raceRec{w: w, id: cb.id, gen: gb}
	a, b := raceBuild(w, ca, ra), raceBuild(w, cb, rb)
	ra.between = func() { _ = b.VerifRegisterInstance(ctx) }
	if err := a.VerifRegisterInstance(ctx); err != nil {
		return "", false
	}
	if w.bad || len(ra.attempts) != 2 || len(rb.attempts) != 1 {
		return "", false
	}
	var ce []string
	for _, c := range []lcfg{ca, cb} {
		ce = append(ce, c.enc())
	}
	return strings.Join([]string{"C08.race", "race/k" + itoa(caseNo), strings.Join(ce, ";"), init0, ra.attempts[0], rb.attempts[0], ra.attempts[1],
		raceFinal(w, a, ca.id), raceFinal(w, b, cb.id)}, "\t"), true
}
