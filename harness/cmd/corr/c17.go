package main

// C17 - services and their manager follow the state machine on every interleaving.
//
// One service (this file): a real services.BasicService (or idle / timer service) whose three
// functions block on gates and return scripted results. A scheduler (the harness goroutine) performs
// one action at a time - StartAsync / StopAsync / parent-context cancel / gate release with a result
// / AddListener (+ its remove func) / delivery to a slow ("gated") listener / waiter-context cancel -
// and after every action waits DETERMINISTICALLY until the system is quiet (the main goroutine of the
// service is parked in a gate or has finished, every listener has received what the primary listener
// has received, released waiters have returned). No fixed sleeps; a watchdog (5 s) marks stuck waits.
//
// Line: C17.svc <cfg> <actions> <snapshots joined by " | ">   (initial snapshot + one per action)

import (
	"context"
	"errors"
	"fmt"
	"runtime"
	"strconv"
	"strings"
	"sync"
	"sync/atomic"
	"time"

	"github.com/grafana/dskit/services"
)

func init() {
	register("C17", runC17)
	register("C17.tables", c17Tables)
}

var c17Errs = func() []error {
	o := make([]error, 10)
	for i := 1; i < 10; i++ {
		o[i] = fmt.Errorf("scripted-error-%d", i)
	}
	return o
}()

func c17ErrID(err error) string {
	if err == nil {
		return "-"
	}
	for i := 1; i < len(c17Errs); i++ {
		if errors.Is(err, c17Errs[i]) {
			return strconv.Itoa(i)
		}
	}
	return "?"
}

// result classes of Await*/helpers: ok, c (context cancelled), e (other error), e<k> (carries scripted failure k)
func c17ResClass(err error) string {
	switch {
	case err == nil:
		return "ok"
	case errors.Is(err, context.Canceled), errors.Is(err, context.DeadlineExceeded):
		return "c"
	}
	if id := c17ErrID(err); id != "?" {
		return "e" + id
	}
	return "e"
}

func c17StateCode(s services.State) string {
	switch s {
	case services.New:
		return "N"
	case services.Starting:
		return "S"
	case services.Running:
		return "R"
	case services.Stopping:
		return "P"
	case services.Terminated:
		return "T"
	case services.Failed:
		return "F"
	}
	return "?" + strconv.Itoa(int(s))
}

func c17Terminal(s services.State) bool { return s == services.Terminated || s == services.Failed }

const c17Watchdog = 8 * time.Second

var c17TimeoutCount int32

// poker wakes the scheduler whenever something observable happened (a function parked in a gate, a
// listener callback ran, a waiter returned), so that waiting for quiescence needs no fixed sleeps.
type poker chan struct{}

func (p poker) poke() {
	select {
	case p <- struct{}{}:
	default:
	}
}

// waitUntil re-evaluates cond after every poke (and at least every 200µs, for changes that are not
// harness events such as a context cancellation); false on watchdog expiry.
func waitUntil(p poker, cond func() bool) bool {
	var deadline time.Time
	var timer *time.Timer
	for i := 0; ; i++ {
		if cond() {
			return true
		}
		if i < 20 {
			runtime.Gosched()
			continue
		}
		if deadline.IsZero() {
			wd := c17Watchdog
			if atomic.LoadInt32(&c17TimeoutCount) > 16 {
				wd = 150 * time.Millisecond // the run is already failing: do not spend 8 s on every stuck wait
			}
			deadline = time.Now().Add(wd)
			timer = time.NewTimer(200 * time.Microsecond)
			defer timer.Stop()
		} else if i%32 == 0 && time.Now().After(deadline) {
			atomic.AddInt32(&c17TimeoutCount, 1)
			return false
		}
		select {
		case <-p:
		case <-timer.C:
		}
		if !timer.Stop() {
			select {
			case <-timer.C:
			default:
			}
		}
		timer.Reset(200 * time.Microsecond)
	}
}

// ---------------------------------------------------------------- listeners

type c17lsn struct {
	mu       sync.Mutex
	id       int
	gated    bool
	removed  bool
	remove   func()
	log      []string
	to       []services.State // target state of each received callback
	regAt    int              // number of transitions the primary listener had seen at registration
	entered  int
	released int
	gate     chan struct{}
	inCb     int32
	reent    *int32
	pk       poker
}

func (l *c17lsn) cb(entry string, to services.State) {
	if atomic.AddInt32(&l.inCb, 1) > 1 {
		atomic.AddInt32(l.reent, 1)
	}
	l.mu.Lock()
	l.log = append(l.log, entry)
	l.to = append(l.to, to)
	l.entered++
	l.mu.Unlock()
	if l.gated {
		l.pk.poke()
		<-l.gate
	} else {
		runtime.Gosched() // widen the window in which a concurrent second callback would be seen
	}
	atomic.AddInt32(&l.inCb, -1)
	l.pk.poke()
}
func (l *c17lsn) Starting() { l.cb("S", services.Starting) }
func (l *c17lsn) Running()  { l.cb("R", services.Running) }
func (l *c17lsn) Stopping(from services.State) {
	l.cb("P"+c17StateCode(from), services.Stopping)
}
func (l *c17lsn) Terminated(from services.State) {
	l.cb("T"+c17StateCode(from), services.Terminated)
}
func (l *c17lsn) Failed(from services.State, err error) {
	l.cb("F"+c17StateCode(from)+c17ErrID(err), services.Failed)
}
func (l *c17lsn) counts() (entered, released, n int) {
	l.mu.Lock()
	defer l.mu.Unlock()
	return l.entered, l.released, len(l.log)
}
func (l *c17lsn) render() string {
	l.mu.Lock()
	defer l.mu.Unlock()
	k := "u"
	if l.gated {
		k = "g"
	}
	if l.removed {
		k += "x"
	}
	lg := "-"
	if len(l.log) > 0 {
		lg = strings.Join(l.log, ",")
	}
	return strconv.Itoa(l.id) + k + ":" + lg
}

// ---------------------------------------------------------------- waiters

type c17waiter struct {
	mu   sync.Mutex
	done bool
	res  string
	pk   poker
}

func (w *c17waiter) set(err error) {
	w.mu.Lock()
	w.done, w.res = true, c17ResClass(err)
	w.mu.Unlock()
	w.pk.poke()
}
func (w *c17waiter) isDone() bool {
	if w == nil {
		return false
	}
	w.mu.Lock()
	defer w.mu.Unlock()
	return w.done
}
func (w *c17waiter) render() string {
	if w == nil {
		return "-"
	}
	w.mu.Lock()
	defer w.mu.Unlock()
	if !w.done {
		return "p"
	}
	return w.res
}

// ---------------------------------------------------------------- gated service

type c17svc struct {
	kind                      byte // 'b' basic, 'i' idle, 't' timer
	hasStart, hasRun, hasStop bool
	svc                       *services.BasicService
	parent                    context.Context
	cancelParent              context.CancelFunc
	parentCancelled           bool

	mu      sync.Mutex
	calls   []string
	blocked string // name of the gate the main goroutine is parked in ("" = none)
	gates   map[string]chan int

	lsns  []*c17lsn
	reent int32

	wR, wT, cR, cT *c17waiter
	hS, hX         *c17waiter
	hSImmediate    bool // StartAndAwaitRunning was called on a non-New service: it returns at once
	wctx           context.Context
	wcancel        context.CancelFunc
	wCancelled     bool
	timeouts       int
	lastRet        string
	nS             int
	pk             poker
	onPark         func(name string) // optional hook, called on the service's goroutine when a function parks
	hookFlags      []string          // what the goroutine started from inside the parent context's Done() saw (action SH)
}

// c17hookCtx is a parent context whose first Done() call (context.WithCancel(parent) makes it) runs a hook on
// the calling goroutine: the point of StartAsync at which the service context is being derived.
type c17hookCtx struct {
	context.Context
	once sync.Once
	f    func()
}

func (h *c17hookCtx) Done() <-chan struct{} {
	h.once.Do(h.f)
	return h.Context.Done()
}

// startWithHook: StartAsync(parent) where, while StartAsync derives the service context, a second goroutine
// calls State, ServiceContext and StopAsync. StartAsync waits for it for a moment only (if that point lies
// inside the service's critical section the second goroutine cannot proceed until StartAsync has finished);
// the second goroutine is joined before the action ends. Its observations go to hookFlags.
func (c *c17svc) startWithHook() error {
	var mu sync.Mutex
	done := make(chan struct{})
	flag := func(f string) {
		mu.Lock()
		c.hookFlags = append(c.hookFlags, f)
		mu.Unlock()
	}
	second := func() {
		defer close(done)
		defer func() {
			if r := recover(); r != nil {
				flag("hkpanic")
			}
		}()
		st := c.svc.State()
		if ctx := c.svc.ServiceContext(); st != services.New && ctx == nil {
			flag("hknilctx")
		}
		c.svc.StopAsync()
	}
	var spawned int32
	h := &c17hookCtx{Context: c.parent, f: func() {
		atomic.StoreInt32(&spawned, 1)
		go second()
		select {
		case <-done:
		case <-time.After(time.Millisecond):
		}
	}}
	err := c.svc.StartAsync(h)
	if atomic.LoadInt32(&spawned) == 0 {
		go second() // Done() was not consulted: the stop request simply follows the start
	}
	select {
	case <-done:
	case <-time.After(8 * time.Second):
		flag("hkstuck")
	}
	mu.Lock()
	defer mu.Unlock()
	c.hookFlags = append([]string(nil), c.hookFlags...)
	return err
}

func (c *c17svc) ctxFlag() string {
	ctx := c.svc.ServiceContext()
	if ctx == nil {
		return "n"
	}
	if ctx.Err() != nil {
		return "1"
	}
	return "0"
}

// park logs the invocation and blocks the calling (service main) goroutine until the scheduler releases it.
func (c *c17svc) park(name, entry string) error {
	c.mu.Lock()
	c.calls = append(c.calls, entry)
	c.blocked = name
	ch := c.gates[name]
	hook := c.onPark
	c.mu.Unlock()
	if hook != nil {
		hook(name)
	}
	c.pk.poke()
	k := <-ch
	if k == 0 {
		return nil
	}
	return c17Errs[k]
}

func (c *c17svc) blockedGate() string {
	c.mu.Lock()
	defer c.mu.Unlock()
	return c.blocked
}

func (c *c17svc) release(name string, k int) bool {
	c.mu.Lock()
	if c.blocked != name {
		c.mu.Unlock()
		return false
	}
	c.blocked = ""
	ch := c.gates[name]
	c.mu.Unlock()
	ch <- k
	return true
}

func newC17svc(kind byte, hasStart, hasRun, hasStop bool) *c17svc {
	return newC17svcP(kind, hasStart, hasRun, hasStop, make(poker, 1))
}

func newC17svcP(kind byte, hasStart, hasRun, hasStop bool, pk poker) *c17svc {
	c := &c17svc{pk: pk, kind: kind, hasStart: hasStart, hasRun: hasRun, hasStop: hasStop, lastRet: "-",
		gates: map[string]chan int{"s": make(chan int), "r": make(chan int), "p": make(chan int), "i": make(chan int)}}
	c.parent, c.cancelParent = context.WithCancel(context.Background())
	var start services.StartingFn
	var run services.RunningFn
	var stop services.StoppingFn
	flag := func(ctx context.Context) string {
		if ctx.Err() != nil {
			return "1"
		}
		return "0"
	}
	if hasStart {
		start = func(ctx context.Context) error { return c.park("s", "s"+flag(ctx)) }
	}
	if hasRun {
		run = func(ctx context.Context) error { return c.park("r", "r"+flag(ctx)) }
	}
	if hasStop {
		stop = func(failure error) error {
			// the service context as seen at stopping time
			return c.park("p", "p"+c.ctxFlag()+":"+c17ErrID(failure))
		}
	}
	switch kind {
	case 'b':
		c.svc = services.NewBasicService(start, run, stop)
	case 'i':
		c.svc = services.NewIdleService(start, stop)
	case 't':
		iter := func(ctx context.Context) error {
			if ctx.Err() != nil {
				return nil // stop was requested: let the ticker loop see ctx.Done
			}
			return c.park("i", "i0")
		}
		c.svc = services.NewTimerService(100*time.Microsecond, start, iter, stop)
	}
	c.wctx, c.wcancel = context.WithCancel(context.Background())
	c.wR, c.wT, c.cR, c.cT = &c17waiter{pk: pk}, &c17waiter{pk: pk}, &c17waiter{pk: pk}, &c17waiter{pk: pk}
	go func() { c.wR.set(c.svc.AwaitRunning(context.Background())) }()
	go func() { c.wT.set(c.svc.AwaitTerminated(context.Background())) }()
	go func() { c.cR.set(c.svc.AwaitRunning(c.wctx)) }()
	go func() { c.cT.set(c.svc.AwaitTerminated(c.wctx)) }()
	c.addListener(false) // primary listener 0
	return c
}

func (c *c17svc) addListener(gated bool) {
	l := &c17lsn{pk: c.pk, id: len(c.lsns), gated: gated, gate: make(chan struct{}), reent: &c.reent}
	_, _, l.regAt = c.lsns0counts()
	l.remove = c.svc.AddListener(l)
	c.lsns = append(c.lsns, l)
}
func (c *c17svc) lsns0counts() (int, int, int) {
	if len(c.lsns) == 0 {
		return 0, 0, 0
	}
	return c.lsns[0].counts()
}

func (c *c17svc) quiet() bool {
	st := c.svc.State()
	// helpers must have performed their Start/StopAsync
	if c.hS != nil && !c.hS.isDone() && (st == services.New || c.hSImmediate) {
		return false
	}
	if c.hX != nil && !c17Terminal(st) && c.ctxFlag() != "1" {
		return false
	}
	// 1. the service's main goroutine is parked or finished
	switch {
	case st == services.New, c17Terminal(st):
	case c.blockedGate() != "":
	case c.kind == 'i' && st == services.Running && c.ctxFlag() == "0":
	default:
		return false
	}
	// 2. primary listener has caught up with the state
	l0 := c.lsns[0]
	l0.mu.Lock()
	n0 := len(l0.to)
	last := services.New
	if n0 > 0 {
		last = l0.to[n0-1]
	}
	l0.mu.Unlock()
	if last != st {
		return false
	}
	// 3. the other listeners have received what the primary has (since their registration)
	for _, l := range c.lsns[1:] {
		if l.removed {
			continue
		}
		exp := n0 - l.regAt
		entered, released, _ := l.counts()
		if l.gated {
			if released < exp && entered != released+1 {
				return false
			}
			if released >= exp && entered != exp {
				return false
			}
		} else if entered != exp {
			return false
		}
	}
	// 4. waiters whose latch must have been released have returned
	if st != services.New && st != services.Starting {
		if !c.wR.isDone() || !c.cR.isDone() {
			return false
		}
		if c.hS != nil && !c.hS.isDone() {
			return false
		}
	}
	if c17Terminal(st) {
		if !c.wT.isDone() || !c.cT.isDone() {
			return false
		}
		if c.hX != nil && !c.hX.isDone() {
			return false
		}
	}
	if c.wCancelled && (!c.cR.isDone() || !c.cT.isDone()) {
		return false
	}
	// the state must not have moved while the conditions above were evaluated
	return c.svc.State() == st
}

func (c *c17svc) settle() {
	if !waitUntil(c.pk, c.quiet) {
		c.timeouts++
	}
}

func (c *c17svc) snapshot() string {
	st := c.svc.State()
	c.mu.Lock()
	calls := "-"
	if len(c.calls) > 0 {
		calls = strings.Join(c.calls, ",")
	}
	c.mu.Unlock()
	aR, aT := "p", "p"
	if c.wR.isDone() {
		aR = c17ResClass(c.svc.AwaitRunning(context.Background()))
	}
	if c.wT.isDone() {
		aT = c17ResClass(c.svc.AwaitTerminated(context.Background()))
	}
	ls := make([]string, len(c.lsns))
	for i, l := range c.lsns {
		ls[i] = l.render()
	}
	bad := "-"
	if n := atomic.LoadInt32(&c.reent); n > 0 || c.timeouts > 0 {
		bad = fmt.Sprintf("re%d,to%d", n, c.timeouts)
	}
	if len(c.hookFlags) > 0 {
		if bad == "-" {
			bad = strings.Join(c.hookFlags, ",")
		} else {
			bad += "," + strings.Join(c.hookFlags, ",")
		}
	}
	return strings.Join([]string{c.lastRet, c17StateCode(st), c17ErrID(c.svc.FailureCase()), c.ctxFlag(), calls,
		c.wR.render(), c.wT.render(), c.cR.render(), c.cT.render(), aR, aT, c.hS.render(), c.hX.render(),
		strings.Join(ls, "/"), bad}, ";")
}

// applicable reports whether the scheduler can perform the action now (harness bookkeeping only).
func (c *c17svc) applicable(a string) bool {
	switch a[0] {
	case 'S':
		if a == "SA" {
			return c.hS == nil && !c.parentCancelled
		}
		if a == "SH" {
			return c.nS == 0 && c.hS == nil && !c.parentCancelled && c.svc.State() == services.New
		}
		return c.nS < 2
	case 'X':
		if a == "XA" {
			return c.hX == nil
		}
		return true
	case 'P':
		return !c.parentCancelled && c.hS == nil
	case 'W':
		return !c.wCancelled
	case 's', 'r', 'p', 'i':
		return c.blockedGate() == a[:1]
	case 'L', 'G':
		return len(c.lsns) < 3
	case 'R', 'D':
		k, _ := strconv.Atoi(a[1:])
		if k < 1 || k >= len(c.lsns) || c.lsns[k].removed {
			return false
		}
		l := c.lsns[k]
		entered, released, _ := l.counts()
		if a[0] == 'D' {
			return l.gated && entered > released
		}
		return !l.gated || entered == released
	}
	return false
}

func (c *c17svc) do(a string) {
	c.lastRet = "-"
	switch a[0] {
	case 'S':
		if a == "SA" {
			c.hS = &c17waiter{pk: c.pk}
			c.hSImmediate = c.svc.State() != services.New
			go func() { c.hS.set(services.StartAndAwaitRunning(c.parent, c.svc)) }()
			break
		}
		c.nS++
		start := func() error { return c.svc.StartAsync(c.parent) }
		if a == "SH" {
			start = c.startWithHook
		}
		if err := start(); err != nil {
			c.lastRet = "e"
		} else {
			c.lastRet = "ok"
		}
	case 'X':
		if a == "XA" {
			c.hX = &c17waiter{pk: c.pk}
			go func() { c.hX.set(services.StopAndAwaitTerminated(context.Background(), c.svc)) }()
			break
		}
		c.svc.StopAsync()
	case 'P':
		c.parentCancelled = true
		c.cancelParent()
	case 'W':
		c.wCancelled = true
		c.wcancel()
	case 's', 'r', 'p', 'i':
		k, _ := strconv.Atoi(a[1:])
		c.release(a[:1], k)
	case 'L':
		c.addListener(false)
	case 'G':
		c.addListener(true)
	case 'R':
		k, _ := strconv.Atoi(a[1:])
		l := c.lsns[k]
		l.remove()
		l.mu.Lock()
		l.removed = true
		l.mu.Unlock()
	case 'D':
		k, _ := strconv.Atoi(a[1:])
		l := c.lsns[k]
		l.mu.Lock()
		l.released++
		l.mu.Unlock()
		l.gate <- struct{}{}
	}
	c.settle()
}

// cleanup drives the service to a terminal state and stops every goroutine of the case.
func (c *c17svc) cleanup() {
	for _, l := range c.lsns {
		if l.gated {
			close(l.gate) // all further callbacks pass
		}
	}
	c.svc.StopAsync()
	c.cancelParent()
	ok := waitUntil(c.pk, func() bool {
		if g := c.blockedGate(); g != "" {
			c.release(g, 0)
		}
		return c17Terminal(c.svc.State())
	})
	c.wcancel()
	if ok {
		for _, l := range c.lsns {
			if !l.removed {
				l.remove()
			}
		}
	}
}

func c17Cfg(kind byte, hs, hr, hp bool) string {
	b := func(x bool) string {
		if x {
			return "1"
		}
		return "0"
	}
	return string(kind) + b(hs) + b(hr) + b(hp)
}

type c17case struct {
	cfg     string
	actions []string
}

// runSvcCase executes the applicable actions of the case; returns executed actions, snapshots and
// the set of alphabet symbols applicable at the end (for the DFS).
func runSvcCase(cs c17case, alphabet []string) (done []string, snaps []string, next []string) {
	tr := newTrack("C17.svc", cs.cfg)
	defer tr.done()
	c := newC17svc(cs.cfg[0], cs.cfg[1] == '1', cs.cfg[2] == '1', cs.cfg[3] == '1')
	c.settle()
	snaps = append(snaps, c.snapshot())
	for _, a := range cs.actions {
		if !c.applicable(a) {
			continue
		}
		tr.step(a)
		c.do(a)
		done = append(done, a)
		snaps = append(snaps, c.snapshot())
	}
	for _, a := range alphabet {
		if c.applicable(a) {
			next = append(next, a)
		}
	}
	c.cleanup()
	return
}

// walkSvcCase: a random walk that at every step picks (weighted) among the actions applicable now.
func walkSvcCase(cfg string, weighted []string, steps int, r *rng) (done, snaps []string) {
	tr := newTrack("C17.svc", cfg)
	defer tr.done()
	c := newC17svc(cfg[0], cfg[1] == '1', cfg[2] == '1', cfg[3] == '1')
	c.settle()
	snaps = append(snaps, c.snapshot())
	for i := 0; i < steps; i++ {
		var app []string
		for _, a := range weighted {
			if c.applicable(a) {
				app = append(app, a)
			}
		}
		if len(app) == 0 {
			break
		}
		a := pick(r, app)
		tr.step(a)
		c.do(a)
		done = append(done, a)
		snaps = append(snaps, c.snapshot())
	}
	c.cleanup()
	return
}

func c17EmitSvc(cfg string, done, snaps []string) []string {
	acts := "-"
	if len(done) > 0 {
		acts = strings.Join(done, " ")
	}
	return []string{"C17.svc", cfg, acts, strings.Join(snaps, " | ")}
}

// caseTrack tells the driver which case (and how far into it) is being run against the implementation,
// so that a crash of the process (a panic in one of the library's goroutines cannot be recovered here)
// is attributed to the cases in flight: cmd, configuration and the actions up to the one in progress.
type caseTrack struct {
	cmd, cfg string
	acts     []string
	end      func()
}

var trackEnv *env // set by the property entry points; nil = no progress log

func newTrack(cmd, cfg string) *caseTrack {
	t := &caseTrack{cmd: cmd, cfg: cfg}
	t.mark()
	return t
}

func (t *caseTrack) mark() {
	if trackEnv == nil {
		return
	}
	if t.end != nil {
		t.end()
	}
	acts := "-"
	if len(t.acts) > 0 {
		acts = strings.Join(t.acts, " ")
	}
	t.end = trackEnv.begin(t.cmd + "\t" + t.cfg + "\t" + acts)
}

func (t *caseTrack) step(a string) {
	t.acts = append(t.acts, a)
	t.mark()
}

func (t *caseTrack) done() {
	if t.end != nil {
		t.end()
		t.end = nil
	}
}

// parallelMap runs f over 0..n-1 on a bounded worker pool and returns the results in index order.
func parallelMap[T any](n int, workers int, f func(i int) T) []T {
	out := make([]T, n)
	var wg sync.WaitGroup
	var next int64 = -1
	for w := 0; w < workers; w++ {
		wg.Add(1)
		go func() {
			defer wg.Done()
			for {
				i := int(atomic.AddInt64(&next, 1))
				if i >= n {
					return
				}
				out[i] = f(i)
			}
		}()
	}
	wg.Wait()
	return out
}

func c17Workers() int {
	n := runtime.NumCPU()
	if n > 8 {
		n = 8
	}
	if n < 2 {
		n = 2
	}
	return n
}

// exhaustive enumeration: breadth-first over action sequences, each level re-executed from scratch;
// a sequence is extended only by actions applicable after it. Leaves (length == depth or nothing
// applicable) are emitted. `keep` samples the frontier when it grows beyond `cap` (quick tier).
func c17Enumerate(e *env, cfg string, alphabet []string, depth int, cap int, r *rng) int {
	type node struct {
		acts []string
	}
	type res struct {
		done, snaps, next []string
	}
	frontier := []node{{}}
	emitted := 0
	for d := 0; d <= depth; d++ {
		rs := parallelMap(len(frontier), c17Workers(), func(i int) res {
			dn, sn, nx := runSvcCase(c17case{cfg, frontier[i].acts}, alphabet)
			return res{dn, sn, nx}
		})
		var nextFrontier []node
		for i, x := range rs {
			if d == depth || len(x.next) == 0 {
				e.emit(c17EmitSvc(cfg, x.done, x.snaps)...)
				emitted++
				continue
			}
			for _, a := range x.next {
				na := append(append([]string{}, frontier[i].acts...), a)
				nextFrontier = append(nextFrontier, node{na})
			}
		}
		if cap <= 0 || cap > 600000 {
			cap = 600000 // hard bound on the frontier
		}
		if len(nextFrontier) > cap {
			// deterministic sample of the frontier
			for i := len(nextFrontier) - 1; i > 0; i-- {
				j := r.intn(i + 1)
				nextFrontier[i], nextFrontier[j] = nextFrontier[j], nextFrontier[i]
			}
			nextFrontier = nextFrontier[:cap]
		}
		frontier = nextFrontier
		if len(frontier) == 0 {
			break
		}
	}
	return emitted
}

var c17Alphabet = []string{"S", "X", "P", "s0", "s1", "r0", "r2", "p0", "p3", "i0", "i4", "L", "G", "R1", "R2", "D1", "D2", "W"}

func c17RandomCfg(r *rng) string {
	kinds := []byte{'b', 'b', 'b', 'i', 't'}
	kind := pick(r, kinds)
	hs, hr, hp := r.chance(4, 5), r.chance(4, 5), r.chance(4, 5)
	if kind != 'b' {
		hr = true
	}
	return c17Cfg(kind, hs, hr, hp)
}

var c17AlphabetHook = []string{"SH", "S", "X", "P", "s0", "s1", "r0", "p0", "p3", "i0", "L", "G", "D1", "W"}

var c17Weighted = []string{"S", "S", "S", "SH", "X", "P", "s0", "s0", "s0", "s1", "r0", "r0", "r2", "p0", "p0", "p3", "i0", "i0", "i4",
	"L", "G", "R1", "R2", "D1", "D2", "D1", "D2", "W"}
var c17WeightedHelpers = []string{"SA", "SA", "SA", "SH", "XA", "X", "S", "s0", "s0", "s0", "s1", "r0", "r0", "r2", "p0", "p0", "p3", "i0", "i4",
	"L", "G", "D1", "D2", "R1"}

func runC17(e *env) {
	trackEnv = e
	only := ""
	if len(e.args) > 0 {
		only = e.args[0]
	}
	if only == "" || only == "svc" {
		r := newRng(e.seed, 1)
		// (a) exhaustive, full service: every applicable sequence up to the depth
		depth, capN := 6, 0
		if !e.quick {
			depth, capN = 7, 0
		}
		c17Enumerate(e, "b111", c17Alphabet, depth, capN, r)
		// (b) exhaustive, shorter, every nil-function configuration and the idle / timer services
		d2 := 5
		if !e.quick {
			d2 = 6
		}
		for _, cfg := range []string{"b011", "b101", "b110", "b001", "b010", "b100", "b000", "i111", "i010", "i110", "t111", "t010"} {
			cp := 400
			if !e.quick {
				cp = 6000
			}
			c17Enumerate(e, cfg, c17Alphabet, d2, cp, r)
		}
		// (b') a stop request issued by a second goroutine while StartAsync is deriving the service context (SH),
		//      every configuration, every short continuation
		for _, cfg := range []string{"b111", "b011", "b101", "b110", "b000", "i111", "i010", "t111", "t010"} {
			c17Enumerate(e, cfg, c17AlphabetHook, 3, 150, r)
		}
		// (c) random longer sequences, all kinds, with and without the blocking helpers
		n := 3000 * e.scale
		type res struct {
			cfg         string
			done, snaps []string
		}
		rs := parallelMap(n, c17Workers(), func(i int) res {
			rr := newRng(e.seed, 1000+uint64(i))
			cfg := c17RandomCfg(rr)
			al := c17Weighted
			if i%3 == 2 {
				al = c17WeightedHelpers
			}
			dn, sn := walkSvcCase(cfg, al, 4+rr.intn(14), rr)
			return res{cfg, dn, sn}
		})
		for _, x := range rs {
			e.emit(c17EmitSvc(x.cfg, x.done, x.snaps)...)
		}
	}
	if only == "" || only == "race" {
		runC17Race(e)
	}
	if only == "" || only == "mgr" {
		runC17Mgr(e)
	}
	if only == "" || only == "fw" {
		runC17FW(e)
	}
	if only == "" || only == "snap" {
		runC17Snap(e)
	}
}

func c17Tables(e *env) {
	// the State enum as the running code defines it (value and name)
	var sb strings.Builder
	sb.WriteString("/-- `services.State` constants: (name, numeric value) read from the running code. -/\n")
	sb.WriteString("def stateValues : List (String × Nat) := [")
	sts := []services.State{services.New, services.Starting, services.Running, services.Stopping, services.Terminated, services.Failed}
	for i, s := range sts {
		if i > 0 {
			sb.WriteString(", ")
		}
		sb.WriteString(fmt.Sprintf("(%q, %d)", s.String(), int(s)))
	}
	sb.WriteString("]\n")
	fmt.Fprint(e.w, sb.String())
}
