package main

import (
	"fmt"
	"os"
	"math/rand"
	"runtime"
	"sort"
	"strconv"
	"strings"
	"sync"
	"time"

	"github.com/grafana/dskit/ring"
)

func init() {
	register("C16", runC16)
	register("C16.tables", c16Tables)
}

// ---------------------------------------------------------------------------------------------
// random generator: a rand.Source that replays a prepared Uint32 stream and records consumption
// ---------------------------------------------------------------------------------------------

type c16Source struct {
	vals []uint32
	pos  int
}

type c16Exhausted struct{}

// Rand.Uint32() is uint32(Int63() >> 31).
func (s *c16Source) Int63() int64 {
	if s.pos >= len(s.vals) {
		panic(c16Exhausted{})
	}
	v := s.vals[s.pos]
	s.pos++
	return int64(v) << 31
}
func (s *c16Source) Seed(int64) {}

func c16RandCase(e *env, stream []uint32, req int, taken []uint32) {
	src := &c16Source{vals: stream}
	g := ring.VerifNewRandomTokenGeneratorWithRand(rand.New(src))
	obs := ""
	func() {
		defer func() {
			if r := recover(); r != nil {
				if _, ok := r.(c16Exhausted); ok {
					obs = "err:exhausted"
					return
				}
				obs = "err:panic"
			}
		}()
		ts := g.GenerateTokens(req, taken)
		obs = "ok:" + u32s(ts)
	}()
	// hand the model exactly what was drawn (the whole stream if the call did not return)
	e.emit("C16.rand", u32s(stream[:src.pos]), itoa(req), u32s(taken), obs)
}

func c16RandCases(e *env, r *rng, n int) {
	// boundary cases first (short lines)
	c16RandCase(e, nil, 0, nil)
	c16RandCase(e, nil, -1, []uint32{1})
	c16RandCase(e, []uint32{5}, 1, nil)
	c16RandCase(e, []uint32{5, 5, 5}, 2, nil)
	c16RandCase(e, []uint32{5, 5, 6}, 2, nil)
	c16RandCase(e, []uint32{5, 6}, 2, []uint32{5})
	c16RandCase(e, []uint32{0, 4294967295, 0, 4294967295, 7}, 3, nil)
	c16RandCase(e, []uint32{3, 2, 1, 0}, 4, nil)
	for i := 0; i < n; i++ {
		var space uint32
		switch r.intn(6) {
		case 0:
			space = 4
		case 1:
			space = 16
		case 2:
			space = 64
		case 3:
			space = 1000
		case 4:
			space = 1 << 16
		default:
			space = 0 // full uint32
		}
		var base uint32
		switch r.intn(4) {
		case 0:
			base = 0
		case 1:
			base = ^uint32(0) - (space - 1) // top of the space (space=0 -> whole range)
			if space == 0 {
				base = 0
			}
		default:
			base = r.u32()
		}
		draw := func() uint32 {
			if space == 0 {
				return r.u32()
			}
			return base + uint32(r.intn(int(space))) // may wrap: still a uint32 token
		}
		// taken: dense or sparse subset of the space (+ a few foreign values, + duplicates)
		var taken []uint32
		ntaken := 0
		if space != 0 && space <= 1000 {
			switch r.intn(4) {
			case 0:
				ntaken = 0
			case 1:
				ntaken = r.intn(int(space) + 1)
			case 2:
				ntaken = int(space) - 1 - r.intn(2)
			default:
				ntaken = int(space) / 2
			}
			perm := make([]uint32, space)
			for j := range perm {
				perm[j] = base + uint32(j)
			}
			for j := len(perm) - 1; j > 0; j-- {
				k := r.intn(j + 1)
				perm[j], perm[k] = perm[k], perm[j]
			}
			if ntaken < 0 {
				ntaken = 0
			}
			taken = append(taken, perm[:ntaken]...)
		} else {
			ntaken = r.intn(40)
			for j := 0; j < ntaken; j++ {
				taken = append(taken, draw())
			}
		}
		if r.chance(1, 4) && len(taken) > 0 {
			taken = append(taken, taken[r.intn(len(taken))]) // duplicate in the taken list
		}
		if r.chance(1, 4) {
			taken = append(taken, r.u32())
		}
		free := 1 << 30
		if space != 0 && space <= 1000 {
			free = int(space) - ntaken
		}
		var req int
		switch r.intn(8) {
		case 0:
			req = 0
		case 1:
			req = -r.intn(3) - 1
		case 2:
			req = 1
		case 3:
			req = free // everything that is left
		case 4:
			req = free + 1 + r.intn(2) // more than exists: the loop cannot finish
		default:
			m := free
			if m > 600 {
				m = 600
			}
			req = r.intn(m + 1)
		}
		if req > 1200 {
			req = 1200
		}
		// stream: long enough that a satisfiable request almost always completes
		l := 40
		if space != 0 && space <= 1000 {
			l = int(space)*12 + 40
		} else {
			l = req*2 + 40
		}
		if l > 14000 {
			l = 14000
		}
		stream := make([]uint32, l)
		for j := range stream {
			stream[j] = draw()
		}
		c16RandCase(e, stream, req, taken)
	}
	// the public seeded constructor: the stream is re-created from the same stdlib source
	for i := 0; i < n/10+5; i++ {
		seed := int64(r.u64() >> 1)
		req := r.intn(300)
		var taken []uint32
		ref := rand.New(rand.NewSource(seed))
		stream := make([]uint32, req+64)
		for j := range stream {
			stream[j] = ref.Uint32()
		}
		for j := 0; j < r.intn(20); j++ { // taken values that will be drawn
			taken = append(taken, stream[r.intn(len(stream))])
		}
		g := ring.NewRandomTokenGeneratorWithSeed(seed)
		ts := g.GenerateTokens(req, taken)
		// consumed = req + number of rejected draws; recompute by replaying the rejection rule on the
		// reference stream is the model's job: hand over the prefix that certainly suffices.
		e.emit("C16.rand", u32s(c16Consumed(stream, req, taken)), itoa(req), u32s(taken), "ok:"+u32s(ts))
	}
}

// c16Consumed cuts the re-created stdlib stream after the draw that produced the req-th distinct
// untaken value (what the generator must have consumed if it is a rejection sampler at all; if it is
// not, the model disagrees and the judge still sees the implementation's tokens).
func c16Consumed(stream []uint32, req int, taken []uint32) []uint32 {
	used := map[uint32]bool{}
	for _, t := range taken {
		used[t] = true
	}
	n := 0
	for i, v := range stream {
		if n == req {
			return stream[:i]
		}
		if !used[v] {
			used[v] = true
			n++
		}
	}
	return stream
}

// ---------------------------------------------------------------------------------------------
// spread-minimising generator
// ---------------------------------------------------------------------------------------------

func c16Lists(m map[int]ring.Tokens, n int) string {
	parts := make([]string, n+1)
	for k := 0; k <= n; k++ {
		parts[k] = u32s(m[k])
	}
	return strings.Join(parts, ";")
}

func c16Map(e *env, z, n int) map[int]ring.Tokens {
	g := ring.NewSpreadMinimizingTokenGeneratorForInstanceAndZoneID("", n, z, false)
	m, err := g.VerifGenerateTokensByInstanceID()
	if err != nil {
		e.emit("C16.map", itoa(z), itoa(n), "-", "err")
		return nil
	}
	e.emit("C16.map", itoa(z), itoa(n), "-", c16Lists(m, n))
	return m
}

func c16All(z, n int) string {
	g := ring.NewSpreadMinimizingTokenGeneratorForInstanceAndZoneID("", n, z, false)
	ts, err := g.VerifGenerateAllTokens()
	if err != nil {
		return "err"
	}
	return "ok:" + u32s(ts)
}

// c16Parallel computes f(i) for i in [0,n) on all cores and returns the results in order.
func c16Parallel(n int, f func(i int) string) []string {
	out := make([]string, n)
	var wg sync.WaitGroup
	ch := make(chan int, n)
	for i := 0; i < n; i++ {
		ch <- i
	}
	close(ch)
	w := runtime.NumCPU()
	for k := 0; k < w; k++ {
		wg.Add(1)
		go func() {
			defer wg.Done()
			for i := range ch {
				out[i] = f(i)
			}
		}()
	}
	wg.Wait()
	return out
}

var c16ZoneNames = []string{"zone-a", "zone-b", "zone-c", "zone-d", "zone-e", "zone-f", "zone-g", "zone-h"}

// c16Gen drives the public constructor and GenerateTokens.
func c16GenTokens(z, n, req int, taken []uint32, public bool, r *rng) (string, bool) {
	var g *ring.SpreadMinimizingTokenGenerator
	if public {
		// zone id = index of the zone in the sorted zone list; pass the list unsorted sometimes
		nz := z + 1 + r.intn(8-z)
		zones := append([]string{}, c16ZoneNames[:nz]...)
		if r.chance(1, 2) {
			for j := len(zones) - 1; j > 0; j-- {
				k := r.intn(j + 1)
				zones[j], zones[k] = zones[k], zones[j]
			}
		}
		var err error
		g, err = ring.NewSpreadMinimizingTokenGenerator(fmt.Sprintf("ingester-%s-%d", c16ZoneNames[z], n), c16ZoneNames[z], zones, r.chance(1, 2))
		if err != nil {
			return "err:ctor", false
		}
	} else {
		g = ring.NewSpreadMinimizingTokenGeneratorForInstanceAndZoneID("p-", n, z, false)
	}
	obs := ""
	func() {
		defer func() {
			if rec := recover(); rec != nil {
				obs = "err:panic"
			}
		}()
		obs = "ok:" + u32s(g.GenerateTokens(req, taken))
	}()
	return obs, true
}

func runC16(e *env) {
	t0 := time.Now()
	lap := func(what string) {
		if os.Getenv("C16_TIMING") != "" {
			fmt.Fprintf(os.Stderr, "c16: %s done at %v\n", what, time.Since(t0))
		}
	}
	// ---- 1. micro lines: tokenDistance, Less, calculateNewToken, optimalTokenOwnership
	r := newRng(e.seed, 160)
	edge := []uint32{0, 1, 7, 8, 9, 4294967295, 4294967288, 4294967287, 4294967289, 4294967280, 2147483648, 8388608, 8388615}
	for _, a := range edge {
		for _, b := range edge {
			e.emit("C16.dist", itoa64(uint64(a)), itoa64(uint64(b)), "-", strconv.FormatInt(ring.VerifTokenDistance(a, b), 10))
		}
	}
	for i := 0; i < 300*e.scale; i++ {
		a, b := r.u32(), r.u32()
		e.emit("C16.dist", itoa64(uint64(a)), itoa64(uint64(b)), "-", strconv.FormatInt(ring.VerifTokenDistance(a, b), 10))
	}
	for i := 0; i < 400*e.scale; i++ {
		oi, oj := int64(r.intn(5))*1000, int64(r.intn(5))*1000
		if r.chance(1, 3) {
			oi, oj = int64(r.u32()), int64(r.u32())
		}
		ki, kj := r.intn(4), r.intn(4)
		if r.chance(1, 3) {
			ki, kj = int(r.u32()), int(r.u32())
		}
		e.emit("C16.less", fmt.Sprintf("%d,%d", oi, ki), fmt.Sprintf("%d,%d", oj, kj), "-",
			strconv.FormatBool(ring.VerifOwnershipLess(float64(oi), ki, float64(oj), kj)))
	}
	gz := ring.NewSpreadMinimizingTokenGeneratorForInstanceAndZoneID("", 1, 0, false)
	calc := func(tok, prev, opt uint32) {
		n, err := gz.VerifCalculateNewToken(tok, prev, opt)
		obs := "err"
		if err == nil {
			obs = "ok:" + itoa64(uint64(n))
		}
		e.emit("C16.calc", itoa64(uint64(tok)), itoa64(uint64(prev)), itoa64(uint64(opt)), obs)
	}
	for i := 0; i < 1500*e.scale; i++ {
		z := uint32(r.intn(8))
		var prev, tok, opt uint32
		switch r.intn(6) {
		case 0: // arbitrary
			prev, tok, opt = r.u32(), r.u32(), r.u32()
		case 1: // congruent, random
			prev, tok, opt = r.u32()/8*8+z, r.u32()/8*8+z, (r.u32()>>uint(r.intn(28)))/8*8
		case 2: // wrap-around range near the top of the space
			prev = 4294967288 - uint32(r.intn(64))*8 + z
			tok = uint32(r.intn(64))*8 + z
			opt = uint32(r.intn(140)) * 8
		case 3: // range ending at the top
			tok = 4294967288 + z
			prev = tok - uint32(r.intn(64)+1)*8
			opt = uint32(r.intn(70)) * 8
		case 4: // prev above maxTokenValue
			prev = 4294967288 + z
			tok = uint32(r.intn(64))*8 + z
			opt = uint32(r.intn(70)) * 8
		default: // opt exactly / nearly the distance
			prev = r.u32()/8*8 + z
			d := uint32(r.intn(1000)+1) * 8
			tok = prev + d
			opt = d + uint32(r.intn(5))*8 - 16
		}
		if r.chance(1, 15) {
			opt += uint32(r.intn(8))
		}
		calc(tok, prev, opt)
	}
	for i := 0; i < 1000*e.scale; i++ {
		id := r.intn(2500)
		if r.chance(1, 10) {
			id = r.intn(1 << 21)
		}
		rem := uint32(r.intn(512) + 1)
		q := uint64(1<<32) / uint64(id+1)
		var curr uint64
		switch r.intn(4) {
		case 0:
			curr = 0
		case 1:
			curr = q - uint64(r.intn(20))
			if curr > q {
				curr = q
			}
		default:
			curr = uint64(r.u64() % (q + 1))
		}
		v := gz.VerifOptimalTokenOwnership(float64(uint64(1<<32))/float64(id+1), float64(curr), rem)
		e.emit("C16.opt", itoa(id), itoa64(curr), itoa64(uint64(rem)), itoa64(uint64(v)))
	}

	lap("micro")
	// ---- 2. random generator
	randScale := 1
	genScale := 1
	if !e.quick {
		randScale, genScale = 6, 3 // lines are large; thorough widens the id range rather than the count
	}
	c16RandCases(e, newRng(e.seed, 161), 2500*randScale)

	lap("rand")
	// ---- 3. whole maps: small ones (short lines), then the big one per zone
	big := 400
	if !e.quick {
		big = 2000
	}
	for _, n := range []int{0, 1, 2, 3, 7} {
		for z := 0; z < 8; z++ {
			c16Map(e, z, n)
		}
	}
	// The property quantifies over ids 0..2000 and every prefix: also the quick tier builds (and the
	// judge scans every prefix of) the whole map for n = 2000 in one zone, chosen by the seed; the
	// other zones stay at 400. (The `ignoredInstances` path of the generator is first taken beyond
	// id 1000, so a 400-instance map never exercises it.) Thorough: all zones at 2000.
	fullZone := int(e.seed % 8)
	maps := make([]map[int]ring.Tokens, 8)
	for z := 0; z < 8; z++ {
		n := big
		if z == fullZone {
			n = 2000
		}
		maps[z] = c16Map(e, z, n)
	}

	lap("maps")
	// ---- 4. every instance computed by its own generator (prefix determinism on the implementation)
	type zn struct{ z, n int }
	var jobs []zn
	r4 := newRng(e.seed, 163)
	for z := 0; z < 8; z++ {
		dense := 100 // every id up to here, then a seeded sample
		if !e.quick {
			dense = 400
		}
		for n := 0; n <= dense; n++ {
			jobs = append(jobs, zn{z, n})
		}
		// beyond `dense` a seeded sample; ids above 1000 only for the first and the last zone (the
		// whole map of every zone is compared up to `big` anyway, and the thorough tier re-runs a
		// sample of lines through Lean's interpreter, which is ~15x slower than the compiled model)
		top := big
		if top > 1000 && z != 0 && z != 7 {
			top = 1000
		}
		for n := dense + 1 + r4.intn(4); n < top; n += 2 + r4.intn(5) + r4.intn(7)*(e.scale/4) {
			jobs = append(jobs, zn{z, n})
		}
		jobs = append(jobs, zn{z, top})
	}
	res := c16Parallel(len(jobs), func(i int) string { return c16All(jobs[i].z, jobs[i].n) })
	for i, j := range jobs {
		// + what the generator of the zone's largest instance attributes to instance n (sorted), so
		// that "the same tokens whoever computes them" is judged on the implementation's outputs
		row := "-"
		if maps[j.z] != nil {
			if r, ok := maps[j.z][j.n]; ok {
				sr := append([]uint32{}, r...)
				sort.Slice(sr, func(a, b int) bool { return sr[a] < sr[b] })
				row = u32s(sr)
			}
		}
		e.emit("C16.inst", itoa(j.z), itoa(j.n), "-", res[i], row)
	}

	lap("inst")
	// ---- 5. GenerateTokens with taken sets and requested counts
	r5 := newRng(e.seed, 164)
	type genJob struct {
		z, n, req int
		taken     []uint32
		public    bool
		sub       *rng
	}
	var gj []genJob
	for i := 0; i < 1500*genScale; i++ {
		z := r5.intn(8)
		var n int
		switch x := r5.intn(10); {
		case x < 5:
			n = r5.intn(12)
		case x < 8:
			n = r5.intn(80)
		case x < 9:
			n = r5.intn(250)
		default:
			n = r5.intn(big + 1)
			if n > 1000 && z != 0 && z != 7 {
				n = n % 1001
			}
		}
		own := []uint32(nil)
		if maps[z] != nil {
			own = maps[z][n]
		}
		var taken []uint32
		switch r5.intn(7) {
		case 0: // nothing taken
		case 1: // some own tokens
			for _, t := range own {
				if r5.chance(1, 4) {
					taken = append(taken, t)
				}
			}
		case 2: // almost all / all own tokens
			keep := r5.intn(3)
			for j, t := range own {
				if j >= keep {
					taken = append(taken, t)
				}
			}
		case 3: // other instances' tokens and neighbours of own tokens
			if maps[z] != nil {
				o := r5.intn(big + 1)
				if o != n {
					taken = append(taken, maps[z][o]...)
				}
			}
			for _, t := range own {
				if r5.chance(1, 8) {
					taken = append(taken, t+1, t-1, t+8)
				}
			}
		case 4: // random tokens
			for j := 0; j < r5.intn(300); j++ {
				taken = append(taken, r5.u32())
			}
		case 5: // a prefix of the sorted own tokens (what a restarted instance already has)
			s := append([]uint32{}, own...)
			sort.Slice(s, func(a, b int) bool { return s[a] < s[b] })
			taken = append(taken, s[:r5.intn(len(s)+1)]...)
		default: // mix with duplicates
			for _, t := range own {
				if r5.chance(1, 2) {
					taken = append(taken, t, t)
				}
			}
			taken = append(taken, r5.u32(), 0, 4294967295)
		}
		var req int
		switch r5.intn(10) {
		case 0:
			req = 0
		case 1:
			req = 1
		case 2:
			req = 512
		case 3:
			req = 513 + r5.intn(600)
		case 4:
			req = 511
		case 5:
			req = -1 - r5.intn(3)
		case 6:
			req = 512 - len(taken) // often exactly the number of free tokens
			if req < 0 {
				req = 2
			}
		default:
			req = r5.intn(520)
		}
		gj = append(gj, genJob{z, n, req, taken, r5.chance(1, 2), newRng(e.seed, uint64(1000+i))})
	}
	type genRes struct{ all, obs string }
	gres := make([]genRes, len(gj))
	c16Parallel(len(gj), func(i int) string {
		j := gj[i]
		all, _ := c16GenTokens(j.z, j.n, 512, nil, false, j.sub)
		obs, _ := c16GenTokens(j.z, j.n, j.req, j.taken, j.public, j.sub)
		gres[i] = genRes{strings.TrimPrefix(all, "ok:"), obs}
		return ""
	})
	for i, j := range gj {
		e.emit("C16.gen", fmt.Sprintf("%d,%d", j.z, j.n), itoa(j.req), u32s(j.taken), gres[i].all, gres[i].obs)
	}

	lap("gen")
	// ---- 5b. call SEQUENCES on one long-lived generator object: the taken set grows and SHRINKS
	// between calls (a reserved token taken in an earlier call is free again later), duplicates,
	// varying requested counts. Every call is an ordinary C16.gen case: compared with the model's pure
	// generateTokens(n, z, requested, taken) and judged against the contract, so a generator that keeps
	// anything between calls (a cached taken set, a cursor, a shortened token list) shows up as a
	// difference from what a fresh generator returns for the same arguments.
	r5b := newRng(e.seed, 166)
	type seqCall struct {
		req   int
		taken []uint32
	}
	type seqJob struct {
		z, n   int
		public bool
		calls  []seqCall
	}
	var sj []seqJob
	for i := 0; i < 40*genScale; i++ {
		z := r5b.intn(8)
		n := r5b.intn(12)
		if r5b.chance(1, 4) {
			n = r5b.intn(60)
		}
		own := []uint32(nil)
		if maps[z] != nil {
			own = maps[z][n]
		}
		pickOwn := func(num, den int) []uint32 {
			var t []uint32
			for _, v := range own {
				if r5b.chance(num, den) {
					t = append(t, v)
				}
			}
			return t
		}
		job := seqJob{z: z, n: n, public: r5b.chance(1, 2)}
		k := 3 + r5b.intn(4)
		var prev []uint32
		for c := 0; c < k; c++ {
			var taken []uint32
			switch r5b.intn(6) {
			case 0: // nothing taken (everything taken earlier is free again)
			case 1: // about 100 reserved tokens taken
				taken = pickOwn(1, 5)
			case 2: // a subset of the previous call's taken set (shrinks)
				for _, v := range prev {
					if r5b.chance(1, 2) {
						taken = append(taken, v)
					}
				}
			case 3: // a superset of the previous call's taken set (grows)
				taken = append(append(taken, prev...), pickOwn(1, 6)...)
			case 4: // nearly everything
				taken = pickOwn(9, 10)
			default: // duplicates and foreign values
				for _, v := range pickOwn(1, 3) {
					taken = append(taken, v, v)
				}
				taken = append(taken, r5b.u32(), 0)
			}
			req := 512
			switch r5b.intn(5) {
			case 0:
				req = r5b.intn(520)
			case 1:
				req = 512 - len(taken)
				if req < 0 {
					req = 1
				}
			case 2:
				req = 1 + r5b.intn(8)
			}
			job.calls = append(job.calls, seqCall{req, taken})
			prev = taken
		}
		if i < 8 { // the plain scenario: nothing taken, ~100 reserved tokens taken, freed again
			job.calls = []seqCall{{512, nil}, {512, pickOwn(1, 5)}, {512, nil}, {512, pickOwn(1, 2)}, {512, pickOwn(1, 8)}}
		}
		sj = append(sj, job)
	}
	type seqRes struct {
		all string
		obs []string
	}
	sres := make([]seqRes, len(sj))
	c16Parallel(len(sj), func(i int) string {
		j := sj[i]
		all, _ := c16GenTokens(j.z, j.n, 512, nil, false, newRng(e.seed, uint64(5000+i)))
		var g *ring.SpreadMinimizingTokenGenerator
		if j.public {
			var err error
			g, err = ring.NewSpreadMinimizingTokenGenerator(fmt.Sprintf("ingester-%s-%d", c16ZoneNames[j.z], j.n), c16ZoneNames[j.z], c16ZoneNames, false)
			if err != nil {
				g = nil
			}
		} else {
			g = ring.NewSpreadMinimizingTokenGeneratorForInstanceAndZoneID("p-", j.n, j.z, false)
		}
		res := seqRes{all: strings.TrimPrefix(all, "ok:")}
		for _, c := range j.calls {
			obs := "err:ctor"
			if g != nil {
				func() {
					defer func() {
						if rec := recover(); rec != nil {
							obs = "err:panic"
						}
					}()
					obs = "ok:" + u32s(g.GenerateTokens(c.req, c.taken))
				}()
			}
			res.obs = append(res.obs, obs)
		}
		sres[i] = res
		return ""
	})
	for i, j := range sj {
		for k, c := range j.calls {
			e.emit("C16.gen", fmt.Sprintf("%d,%d", j.z, j.n), itoa(c.req), u32s(c.taken), sres[i].all, sres[i].obs[k])
		}
	}

	lap("genseq")
	// ---- 6. partition rings: AddPartition on a real PartitionRingDesc (states, clocks, re-adds,
	// pre-existing locked entries that must be overwritten, negative ids)
	r6 := newRng(e.seed, 165)
	type partOp struct {
		kind byte // 'A' AddPartition, 'S' seed a locked entry directly in the map
		id   int
		st   int
		now  int64
	}
	type partJob struct{ ops []partOp }
	var pj []partJob
	for i := 0; i < 300*genScale; i++ {
		k := 1 + r6.intn(6)
		lim := 40
		if r6.chance(1, 4) {
			lim = big / 2
		}
		var ids []int
		switch r6.intn(3) {
		case 0: // partitions 0..k-1, the way a growing cluster adds them
			for j := 0; j < k; j++ {
				ids = append(ids, j)
			}
		case 1: // consecutive block
			b := r6.intn(lim + 1)
			for j := 0; j < k; j++ {
				ids = append(ids, b+j)
			}
		default:
			for j := 0; j < k; j++ {
				ids = append(ids, r6.intn(lim+1))
			}
		}
		if r6.chance(1, 5) { // re-add one
			ids = append(ids, ids[r6.intn(len(ids))])
		}
		var ops []partOp
		if r6.chance(1, 4) { // an entry that AddPartition has to overwrite completely
			ops = append(ops, partOp{kind: 'S', id: ids[r6.intn(len(ids))]})
		}
		if r6.chance(1, 6) { // an unrelated entry that must survive
			ops = append(ops, partOp{kind: 'S', id: lim + 5 + r6.intn(3)})
		}
		for _, id := range ids {
			ops = append(ops, partOp{kind: 'A', id: id, st: r6.intn(5), now: int64(1600000000 + r6.intn(200000000))})
		}
		if r6.chance(1, 25) { // negative id: generateTokensByInstanceID panics
			ops = append(ops, partOp{kind: 'A', id: -1 - r6.intn(3), st: 2, now: 1700000000})
		}
		pj = append(pj, partJob{ops})
	}
	pres := c16Parallel(len(pj), func(i int) (out string) {
		d := ring.NewPartitionRingDesc()
		defer func() {
			if rec := recover(); rec != nil {
				out = "err:panic"
			}
		}()
		for _, op := range pj[i].ops {
			if op.kind == 'S' {
				d.Partitions[int32(op.id)] = ring.PartitionDesc{Id: int32(op.id), Tokens: []uint32{1, 2, 3}, State: ring.PartitionInactive,
					StateTimestamp: 7, StateChangeLocked: true, StateChangeLockedTimestamp: 5}
				continue
			}
			d.AddPartition(int32(op.id), ring.PartitionState(op.st), time.Unix(op.now, 0))
		}
		keys := make([]int, 0, len(d.Partitions))
		for k := range d.Partitions {
			keys = append(keys, int(k))
		}
		sort.Ints(keys)
		parts := make([]string, len(keys))
		for x, k := range keys {
			p := d.Partitions[int32(k)]
			lk := 0
			if p.StateChangeLocked {
				lk = 1
			}
			parts[x] = fmt.Sprintf("%d/%d/%d/%d/%d/%s", p.Id, int(p.State), p.StateTimestamp, lk, p.StateChangeLockedTimestamp, u32s(p.Tokens))
		}
		return strings.Join(parts, ";")
	})
	for i, j := range pj {
		ops := make([]string, len(j.ops))
		for x, op := range j.ops {
			if op.kind == 'S' {
				ops[x] = fmt.Sprintf("S:%d", op.id)
			} else {
				ops[x] = fmt.Sprintf("A:%d:%d:%d", op.id, op.st, op.now)
			}
		}
		e.emit("C16.part", strings.Join(ops, ","), "-", "-", pres[i])
	}
	lap("part")

	// ---- 7. the public constructor: zone names that are / are not among the configured zones
	// (sorting before, between and after them), zone lists of 0..9 entries, instance names
	r7 := newRng(e.seed, 166)
	pool := []string{"zone-a", "zone-b", "zone-c", "zone-d", "zone-e", "zone-f", "zone-g", "zone-h", "zone-i"}
	strangers := []string{"", "zone-0", "zone", "zone-a-1", "zone-ab", "zone-bb", "zone-c0", "zone-zz", "zonf", "ZONE-A", "a", "zz", "zone-a ", "zone-h1"}
	sq := func(s string) string {
		if s == "" {
			return "~"
		}
		return s
	}
	ctorErr := func(err error) string {
		msg := err.Error()
		switch {
		case strings.HasPrefix(msg, "number of zones"):
			return "err:zoneCount"
		case strings.HasPrefix(msg, "zone ") && strings.HasSuffix(msg, "is not valid"):
			return "err:zoneNotValid"
		default:
			return "err:badInstanceID"
		}
	}
	build := func(inst, zone string, zones []string) string {
		g, err := ring.NewSpreadMinimizingTokenGenerator(inst, zone, zones, false)
		if err != nil {
			return ctorErr(err)
		}
		obs := ""
		func() {
			defer func() {
				if rec := recover(); rec != nil {
					obs = "err:panic"
				}
			}()
			obs = "ok:" + u32s(g.GenerateTokens(512, nil))
		}()
		return obs
	}
	type ctorJob struct {
		inst, zone string
		zones      []string
	}
	var cj []ctorJob
	for i := 0; i < 400*genScale; i++ {
		var nz int
		switch x := r7.intn(20); {
		case x == 0:
			nz = 0
		case x == 1:
			nz = 9
		default:
			nz = 1 + r7.intn(8)
		}
		// a random subset of the pool, in random order
		perm := append([]string{}, pool...)
		for j := len(perm) - 1; j > 0; j-- {
			k := r7.intn(j + 1)
			perm[j], perm[k] = perm[k], perm[j]
		}
		zones := perm[:nz]
		var zone string
		switch x := r7.intn(10); {
		case x < 4 && nz > 0:
			zone = zones[r7.intn(nz)]
		case x < 5: // a pool zone that may or may not be configured
			zone = pool[r7.intn(len(pool))]
		default:
			zone = strangers[r7.intn(len(strangers))]
		}
		n := r7.intn(10)
		inst := fmt.Sprintf("ingester-%s-%d", zone, n)
		switch r7.intn(14) {
		case 0:
			inst = "ingester"
		case 1:
			inst = "ingester-"
		case 2:
			inst = fmt.Sprintf("ing-%da", n)
		case 3:
			inst = fmt.Sprintf("-%d", n)
		case 4:
			inst = fmt.Sprintf("a-b-00%d", n)
		}
		cj = append(cj, ctorJob{inst, zone, zones})
	}
	type ctorRes struct{ obs, cfg string }
	cres := make([]ctorRes, len(cj))
	c16Parallel(len(cj), func(i int) string {
		j := cj[i]
		obs := build(j.inst, j.zone, j.zones)
		sorted := append([]string{}, j.zones...)
		sort.Strings(sorted)
		cfg := make([]string, len(sorted))
		for x, cz := range sorted {
			// the same instance index in every configured zone, through the same constructor
			cfg[x] = strings.TrimPrefix(build(j.inst, cz, j.zones), "ok:")
		}
		c := strings.Join(cfg, ";")
		if len(cfg) == 0 {
			c = "none"
		}
		cres[i] = ctorRes{obs, c}
		return ""
	})
	for i, j := range cj {
		zs := make([]string, len(j.zones))
		for x, zn := range j.zones {
			zs[x] = sq(zn)
		}
		zl := strings.Join(zs, ",")
		if len(zs) == 0 {
			zl = "none"
		}
		e.emit("C16.ctor", j.inst, sq(j.zone), zl, cres[i].obs, cres[i].cfg)
	}
	lap("ctor")
}

func itoa64(v uint64) string { return strconv.FormatUint(v, 10) }

// c16Tables regenerates the generator's constants and the first instance's tokens from the running code.
func c16Tables(e *env) {
	w := e.w
	total, per, zones := ring.VerifC16Constants()
	fmt.Fprintf(w, "def totalTokensCount : Nat := %d\n", total)
	fmt.Fprintf(w, "def optimalTokensPerInstance : Nat := %d\n", per)
	fmt.Fprintf(w, "def maxZonesCount : Nat := %d\n", zones)
	names := []string{}
	for z := 0; z < zones; z++ {
		g := ring.NewSpreadMinimizingTokenGeneratorForInstanceAndZoneID("", 0, z, false)
		ts := g.VerifGenerateFirstInstanceTokens()
		// chunks of 32, one definition per zone (large literals exceed the elaborator's recursion depth)
		fmt.Fprintf(w, "def firstChunks%d : List (List Nat) := [", z)
		for i, t := range ts {
			switch {
			case i == 0:
				fmt.Fprint(w, "[")
			case i%32 == 0:
				fmt.Fprint(w, "], [")
			default:
				fmt.Fprint(w, ", ")
			}
			fmt.Fprint(w, t)
		}
		fmt.Fprintln(w, "]]")
		names = append(names, fmt.Sprintf("firstChunks%d", z))
	}
	fmt.Fprintln(w, "/-- `generateFirstInstanceTokens` for zone ids 0..maxZonesCount-1, in chunks of 32. -/")
	fmt.Fprintf(w, "def firstInstanceTokenChunks : List (List (List Nat)) := [%s", strings.Join(names, ", "))
	fmt.Fprintln(w, "]")
}
