package main

// C08 real-time GLUE stream (judge-only, no model diff): the REAL services — BasicLifecycler.starting/running/
// stopping with the standard delegate stack, Lifecycler.loop/stopping — run on the in-memory consul store
// behind a recording kv.Client with a heartbeat period of 1 s (heartbeat timestamps have second resolution)
// and observe / join periods of 4-5 s. Every committed CAS of each lifecycler is recorded with the wall-clock
// offset; the oracle checks that the own entry's heartbeat is refreshed once per period in every window
// (Starting/observe phase included) and never goes backwards. All scenarios run concurrently with each other and
// with the case generation, so the added wall time is ~0 (a scenario lasts ~8-12 s).
//
// Line: C08.glue <scenario> <lifecycler>;<lifecycler>...   with
// lifecycler = id/kind/periodMs/startMs/stopMs/writes, writes = phase:offsetMs:ownEntryTs:wallSecond,... ("-" = none)

import (
	"context"
	"fmt"
	"os"
	"path/filepath"
	"sort"
	"strconv"
	"strings"
	"sync"
	"time"

	"github.com/go-kit/log"

	"github.com/grafana/dskit/kv/consul"
	"github.com/grafana/dskit/ring"
	"github.com/grafana/dskit/services"
)

type glueWrite struct {
	phase string
	ms    int64
	ts    int64
	wall  int64
}

type glueRec struct {
	inner *consul.Client
	id    string
	t0    time.Time
	phase func() string
	mu    sync.Mutex
	ws    []glueWrite
}

func (r *glueRec) List(ctx context.Context, p string) ([]string, error)   { return r.inner.List(ctx, p) }
func (r *glueRec) Get(ctx context.Context, k string) (interface{}, error) { return r.inner.Get(ctx, k) }
func (r *glueRec) Delete(ctx context.Context, k string) error             { return r.inner.Delete(ctx, k) }
func (r *glueRec) WatchKey(ctx context.Context, k string, f func(interface{}) bool) {
	r.inner.WatchKey(ctx, k, f)
}
func (r *glueRec) WatchPrefix(ctx context.Context, p string, f func(string, interface{}) bool) {
	r.inner.WatchPrefix(ctx, p, f)
}
func (r *glueRec) CAS(ctx context.Context, key string, f func(in interface{}) (out interface{}, retry bool, err error)) error {
	var own *int64
	err := r.inner.CAS(ctx, key, func(in interface{}) (interface{}, bool, error) {
		out, retry, err := f(in)
		own = nil
		if err == nil && out != nil {
			if i, ok := out.(*ring.Desc).Ingesters[r.id]; ok {
				ts := i.Timestamp
				own = &ts
			}
		}
		return out, retry, err
	})
	if err == nil && own != nil {
		now := time.Now()
		ph := "?"
		if r.phase != nil {
			ph = r.phase()
		}
		r.mu.Lock()
		r.ws = append(r.ws, glueWrite{ph, now.Sub(r.t0).Milliseconds(), *own, now.Unix()})
		r.mu.Unlock()
	}
	return err
}

type glueSpec struct {
	kind       byte // 'L' / 'B'
	id         string
	observe    time.Duration
	joinAfter  time.Duration
	regState   ring.InstanceState
	unregister bool
	file       bool
}

type glueScen struct {
	name  string
	specs []glueSpec
	steal time.Duration // >0: at this offset one token of the first lifecycler's entry disappears (forces a 2nd observe round)
}

func glueScenarios() []glueScen {
	s := time.Second
	return []glueScen{
		{name: "blc-active-obs4", specs: []glueSpec{{kind: 'B', id: "g0", observe: 4 * s, regState: ring.ACTIVE, unregister: true}}},
		{name: "blc-joining-obs5-file-keep", specs: []glueSpec{{kind: 'B', id: "g0", observe: 5 * s, regState: ring.JOINING, file: true}}},
		{name: "blc-two-obs4", specs: []glueSpec{{kind: 'B', id: "g0", observe: 4 * s, regState: ring.ACTIVE, unregister: true}, {kind: 'B', id: "g1", observe: 4 * s, regState: ring.JOINING}}},
		{name: "blc-obs4-second-round", specs: []glueSpec{{kind: 'B', id: "g0", observe: 4 * s, regState: ring.ACTIVE, unregister: true}}, steal: 3600 * time.Millisecond},
		{name: "lc-join4", specs: []glueSpec{{kind: 'L', id: "g0", joinAfter: 4 * s, unregister: true}}},
		{name: "lc-join1-obs4-keep", specs: []glueSpec{{kind: 'L', id: "g0", joinAfter: 1 * s, observe: 4 * s, file: true}}},
		{name: "lc-blc-shared", specs: []glueSpec{{kind: 'L', id: "g0", joinAfter: 4 * s, unregister: true}, {kind: 'B', id: "g1", observe: 4 * s, regState: ring.ACTIVE, unregister: true}}},
	}
}

func glueRun(sc glueScen, dir string) string {
	lg := log.NewNopLogger()
	inner, closer := consul.NewInMemoryClient(ring.GetCodec(), lg, nil)
	defer closer.Close()
	const key = "glue-ring"
	period := time.Second
	t0 := time.Now()
	type lcRun struct {
		spec  glueSpec
		rec   *glueRec
		svc   services.Service
		start int64
		stop  int64
		ready func() bool
	}
	var runs []*lcRun
	for _, sp := range sc.specs {
		rec := &glueRec{inner: inner, id: sp.id, t0: t0}
		path := ""
		if sp.file {
			path = filepath.Join(dir, "glue-"+sc.name+"-"+sp.id+".tokens")
			os.Remove(path)
		}
		run := &lcRun{spec: sp, rec: rec}
		if sp.kind == 'L' {
			var cfg ring.LifecyclerConfig
			cfg.RingConfig.KVStore.Mock = rec
			cfg.RingConfig.HeartbeatTimeout = time.Minute
			cfg.NumTokens = 4
			cfg.HeartbeatPeriod = period
			cfg.HeartbeatTimeout = time.Minute
			cfg.ObservePeriod = sp.observe
			cfg.JoinAfter = sp.joinAfter
			cfg.TokensFilePath = path
			cfg.UnregisterOnShutdown = sp.unregister
			cfg.Addr, cfg.Port, cfg.ID = "ga", 1, sp.id
			lc, err := ring.NewLifecycler(cfg, nil, "glue", key, false, lg, nil)
			if err != nil {
				panic(err)
			}
			rec.phase = func() string { return stateCode[lc.GetState()] }
			run.svc = lc
			run.ready = func() bool { return lc.GetState() == ring.ACTIVE }
		} else {
			bcfg := ring.BasicLifecyclerConfig{ID: sp.id, Addr: "ga:1", HeartbeatPeriod: period, HeartbeatTimeout: time.Minute,
				TokensObservePeriod: sp.observe, NumTokens: 4, KeepInstanceInTheRingOnShutdown: !sp.unregister}
			var d ring.BasicLifecyclerDelegate = ring.NewInstanceRegisterDelegate(sp.regState, 4)
			d = ring.NewLeaveOnStoppingDelegate(d, lg)
			if sp.file {
				d = ring.NewTokensPersistencyDelegate(path, ring.JOINING, d, lg)
			}
			d = ring.NewAutoForgetDelegate(10*time.Minute, d, lg)
			b, err := ring.NewBasicLifecycler(bcfg, "glue", key, rec, d, lg, nil)
			if err != nil {
				panic(err)
			}
			rec.phase = func() string { return b.State().String() }
			run.svc = b
			run.ready = func() bool { return b.State() == services.Running }
		}
		runs = append(runs, run)
	}
	// load probe: the largest scheduling delay seen by a goroutine that sleeps 50 ms at a time; the judge does not
	// evaluate the cadence of a scenario during which the harness process itself was starved
	var maxLag int64
	probeStop := make(chan struct{})
	probeDone := make(chan struct{})
	go func() {
		defer close(probeDone)
		for {
			t := time.Now()
			select {
			case <-probeStop:
				return
			case <-time.After(50 * time.Millisecond):
			}
			if lag := time.Since(t).Milliseconds() - 50; lag > maxLag {
				maxLag = lag
			}
		}
	}()
	ctx := context.Background()
	for _, r := range runs {
		r.start = time.Since(t0).Milliseconds()
		if err := r.svc.StartAsync(ctx); err != nil {
			panic(err)
		}
	}
	if sc.steal > 0 {
		time.Sleep(sc.steal - time.Since(t0))
		_ = inner.CAS(ctx, key, func(in interface{}) (interface{}, bool, error) {
			if in == nil {
				return nil, false, nil
			}
			d := in.(*ring.Desc)
			if i, ok := d.Ingesters[sc.specs[0].id]; ok && len(i.Tokens) > 1 {
				i.Tokens = i.Tokens[1:]
				d.Ingesters[sc.specs[0].id] = i
			}
			return d, false, nil
		})
	}
	// wait until every lifecycler is through its start-up (bounded), then let it run for ~2.5 periods
	deadline := t0.Add(15 * time.Second)
	for time.Now().Before(deadline) {
		all := true
		for _, r := range runs {
			if !r.ready() {
				all = false
			}
		}
		if all {
			break
		}
		time.Sleep(50 * time.Millisecond)
	}
	time.Sleep(2500 * time.Millisecond)
	var wg sync.WaitGroup
	for _, r := range runs {
		r.stop = time.Since(t0).Milliseconds()
		wg.Add(1)
		go func(r *lcRun) {
			defer wg.Done()
			_ = services.StopAndAwaitTerminated(ctx, r.svc)
		}(r)
	}
	wg.Wait()
	var parts []string
	for _, r := range runs {
		r.rec.mu.Lock()
		ws := append([]glueWrite(nil), r.rec.ws...)
		r.rec.mu.Unlock()
		sort.SliceStable(ws, func(a, b int) bool { return ws[a].ms < ws[b].ms })
		var w []string
		base := t0.Unix()
		for _, x := range ws {
			w = append(w, fmt.Sprintf("%s:%d:%d:%d", x.phase, x.ms, x.ts-base, x.wall-base))
		}
		wj := "-"
		if len(w) > 0 {
			wj = strings.Join(w, ",")
		}
		parts = append(parts, fmt.Sprintf("%s/%c/%d/%d/%d/%s", r.spec.id, r.spec.kind, period.Milliseconds(), r.start, r.stop, wj))
	}
	close(probeStop)
	<-probeDone
	return strings.Join([]string{"C08.glue", sc.name, strings.Join(parts, ";"), strconv.FormatInt(maxLag, 10)}, "\t")
}

// glueStart launches all glue scenarios in the background; the returned function waits for them and returns the lines.
func glueStart(rounds int) func() []string {
	dir, err := os.MkdirTemp("", "verif-c08glue-")
	if err != nil {
		panic(err)
	}
	scs := glueScenarios()
	lines := make([]string, len(scs)*rounds)
	var wg sync.WaitGroup
	for k := 0; k < rounds; k++ {
		for i, sc := range scs {
			wg.Add(1)
			sc.name = fmt.Sprintf("%s#%d", sc.name, k)
			go func(slot int, sc glueScen) {
				defer wg.Done()
				lines[slot] = glueRun(sc, dir)
			}(k*len(scs)+i, sc)
		}
	}
	return func() []string {
		wg.Wait()
		os.RemoveAll(dir)
		return lines
	}
}
