// Command corr is the implementation side of the correspondence checks: for each property it
// generates cases from one PRNG seed, runs the real dskit code in-process and writes one
// tab-separated line per case: <cmd> <canonical input fields...> <canonical observation fields...>.
// The same lines are piped to the Lean oracle, which recomputes the observation from the model
// (correspondence) and evaluates the property statement on the implementation's observation (judge).
package main

import (
	"bufio"
	"flag"
	"fmt"
	"os"
	"sort"
	"sync"
)

type propFn func(e *env)

type env struct {
	prog    *os.File // optional progress log (VERIF_PROGRESS): which cases are in flight, for crash attribution
	progMu  sync.Mutex
	progSeq int
	seed    uint64
	tier    string
	quick   bool
	scale   int // 1 for quick, larger for thorough
	mu      sync.Mutex
	w       *bufio.Writer
	args    []string
}

func (e *env) emit(fields ...string) {
	e.mu.Lock()
	for i, f := range fields {
		if i > 0 {
			e.w.WriteByte('\t')
		}
		e.w.WriteString(f)
	}
	e.w.WriteByte('\n')
	e.mu.Unlock()
}

// begin records that the case described by desc is about to run against the implementation and
// returns the function to call when it has finished. If the implementation crashes the process
// (a panic in a library goroutine cannot be recovered by the harness) the driver reads the progress
// log and reports the cases that were in flight as the failing input.
func (e *env) begin(desc string) func() {
	if e.prog == nil {
		return func() {}
	}
	e.progMu.Lock()
	e.progSeq++
	n := e.progSeq
	fmt.Fprintf(e.prog, "B\t%d\t%s\n", n, desc)
	e.progMu.Unlock()
	return func() {
		e.progMu.Lock()
		fmt.Fprintf(e.prog, "E\t%d\n", n)
		e.progMu.Unlock()
	}
}

var props = map[string]propFn{}

func register(name string, f propFn) { props[name] = f }

func main() {
	seed := flag.Uint64("seed", 1, "PRNG seed")
	tier := flag.String("tier", "quick", "quick|thorough")
	out := flag.String("out", "-", "output file")
	flag.Parse()
	if flag.NArg() < 1 {
		names := []string{}
		for k := range props {
			names = append(names, k)
		}
		sort.Strings(names)
		fmt.Fprintln(os.Stderr, "usage: corr [-seed N] [-tier T] [-out F] <prop> [args]; props:", names)
		os.Exit(2)
	}
	f, ok := props[flag.Arg(0)]
	if !ok {
		fmt.Fprintln(os.Stderr, "unknown property", flag.Arg(0))
		os.Exit(2)
	}
	var w *os.File = os.Stdout
	if *out != "-" {
		var err error
		w, err = os.Create(*out)
		if err != nil {
			panic(err)
		}
		defer w.Close()
	}
	e := &env{seed: *seed, tier: *tier, quick: *tier != "thorough", scale: 1, w: bufio.NewWriterSize(w, 1<<20), args: flag.Args()[1:]}
	if !e.quick {
		e.scale = 20
	}
	if pp := os.Getenv("VERIF_PROGRESS"); pp != "" {
		if f, err := os.OpenFile(pp, os.O_CREATE|os.O_WRONLY|os.O_APPEND, 0o644); err == nil {
			e.prog = f
			defer f.Close()
		}
	}
	f(e)
	e.w.Flush()
}
