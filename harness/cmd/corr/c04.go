package main

import "strings"

// C04: removal-heavy histories on the detached-node cluster of c06.go (same engine, same line
// format, command C04.run). Heartbeats are written with timestamps at or just below the current
// second so that removals land in the same second as, or seconds after, the last heartbeat; every
// message ever produced stays deliverable (delay / duplicate / reorder) to every node.

func init() { register("C04", runC04) }

func runC04(e *env) {
	// main stream: tombstones retained (retention disabled or 5 minutes)
	c06RunMany(e, "C04.run", 1500*e.scale, 11, func(i int, r *rng) c06Opts {
		return c06Opts{nNodes: 2 + r.intn(3), mult: 1 + r.intn(3), lit: pick(r, []int{0, 300}), ni: r.chance(1, 5),
			nEvents: 14 + r.intn(30), removal: 35 + r.intn(25), startDelta: 1 + r.intn(3), xWeight: 2}
	})
	// reordering scenario (scripted prefix + random tail): instance x registered at A, removed at A or B, the
	// tombstone (broadcast or full state) reaches C - which holds the key but never heard of x - before the
	// older registration message does
	c06RunMany(e, "C04.run", 300*e.scale, 15, func(i int, r *rng) c06Opts {
		return c06Opts{nNodes: 3 + r.intn(2), mult: 1 + r.intn(3), lit: pick(r, []int{0, 300}), ni: r.chance(1, 5),
			nEvents: r.intn(16), removal: 35, startDelta: 1 + r.intn(3), xWeight: 1, script: "unknownleft"}
	})
	// prefix names: removal of "i1" / "o1" / partition 1 at A directly followed by a change of "i10" / "o10" /
	// partition 10 at A, then gossip: the queued tombstone must still be forwarded
	c06RunMany(e, "C04.run", 200*e.scale, 16, func(i int, r *rng) c06Opts {
		return c06Opts{nNodes: 2 + r.intn(3), mult: 1 + r.intn(3), lit: pick(r, []int{0, 300}), ni: r.chance(1, 5),
			nEvents: r.intn(14), removal: 35, startDelta: 2 + r.intn(2), xWeight: 1, script: "prefixdrop"}
	})
	// replace-in-one-CAS writes: ONE local update removes N live instances and registers M >= N fresh ones (no
	// tombstone retained yet, so the stored ring is not larger than the update's result), then gossip / full state
	c06RunMany(e, "C04.run", 150*e.scale, 18, func(i int, r *rng) c06Opts {
		return c06Opts{nNodes: 2 + r.intn(3), mult: 1 + r.intn(3), lit: pick(r, []int{0, 300}), ni: r.chance(1, 5),
			nEvents: r.intn(12), removal: 35, startDelta: 3, xWeight: 1, script: "replace"}
	})
	// retention stream: hours-old entries and tombstones against a one-hour retention
	c06RunMany(e, "C04.run", 250*e.scale, 12, func(i int, r *rng) c06Opts {
		return c06Opts{nNodes: 2 + r.intn(2), mult: 2, lit: 3600, gcOld: true, nEvents: 12 + r.intn(24), removal: 30, startDelta: 3, xWeight: 1}
	})
	// retention reached with real time (2 s): the tombstone is collected at the peer, then the registrations that
	// predate the removal are delivered again
	c06RunMany(e, "C04.run", 3, 17, func(i int, r *rng) c06Opts {
		return c06Opts{nNodes: 2 + i%2, mult: 1 + i, lit: 2, gcOld: true, ni: i == 2, script: []string{"gcresurrect", "gcsilent", "gcresurrect"}[i]}
	})
	// cross-second stream: real sleeps between heartbeat and removal / re-registration
	c06RunMany(e, "C04.run", 16*e.scale, 13, func(i int, r *rng) c06Opts {
		return c06Opts{nNodes: 2 + r.intn(2), mult: 2, lit: 300, allowSl: true, nEvents: 36, removal: 40, startDelta: 2, xWeight: 1}
	})
	// writers whose clock runs ahead of the global clock (outside the quantifier: observation only)
	c06RunMany(e, "C04.run", 60*e.scale, 14, func(i int, r *rng) c06Opts {
		return c06Opts{nNodes: 2 + r.intn(2), mult: 2, lit: 0, skew: true, nEvents: 12 + r.intn(20), removal: 40, startDelta: 3, xWeight: 1}
	})
}

// scriptReplace: instances `old` are registered at A and known to B; then ONE CAS at A removes nRm of them and
// registers nAdd >= nRm instances never seen before (ops in random order), so the update's result is not smaller
// than the stored ring. A must stop showing the removed instances and hold their tombstones, the next gossip batch
// (or full state) must carry them, B must stop showing them, and the older registrations delivered again stay blocked.
func (c *c06Case) scriptReplace() {
	r := c.r
	a := r.intn(c.o.nNodes)
	b := (a + 1 + r.intn(c.o.nNodes-1)) % c.o.nNodes
	key := pick(r, []string{"r1", "r2"})
	ids := append([]string{}, c06RingIDs...)
	for i := len(ids) - 1; i > 0; i-- {
		k := r.intn(i + 1)
		ids[i], ids[k] = ids[k], ids[i]
	}
	hb := func(id string) string {
		d, _ := c.nextDelta(key + id)
		return "hb:" + id + ":" + itoa(d) + ":" + stateCode[pick(r, c06States)] + ":" + itoa(1+r.intn(15))
	}
	nOld := 1 + r.intn(2)
	old, fresh := ids[:nOld], ids[nOld:]
	var reg []string
	for _, id := range old {
		reg = append(reg, hb(id))
	}
	c.doCAS(a, key, strings.Join(reg, "+"))
	if r.chance(1, 2) {
		c.doWatch(a, false, key)
	}
	c.doGossip(a)
	for m := range c.pool {
		c.doDeliver(b, m)
	}
	nRm := 1 + r.intn(nOld)
	nAdd := nRm + r.intn(len(fresh)-nRm+1)
	var ops []string
	for _, id := range old[:nRm] {
		ops = append(ops, "rm:"+id)
	}
	for _, id := range fresh[:nAdd] {
		ops = append(ops, hb(id))
	}
	for i := len(ops) - 1; i > 0; i-- {
		k := r.intn(i + 1)
		ops[i], ops[k] = ops[k], ops[i]
	}
	nPool := len(c.pool)
	c.doCAS(a, key, strings.Join(ops, "+"))
	if r.chance(2, 3) {
		c.doGossip(a)
		for m := nPool; m < len(c.pool); m++ {
			c.doDeliver(b, m)
		}
	} else {
		c.doPushPull(a, b, "", 0)
	}
	// the registrations produced before the removal arrive again at both nodes
	for m := 0; m < nPool; m++ {
		c.doDeliver(b, m)
		if r.chance(1, 2) {
			c.doDeliver(a, m)
		}
	}
	c.doSettle("st")
}
