package main

// C18.mgr - managers built by ARBITRARY sequences of RegisterModule (new names and names already
// registered, with options and with / without init function) and AddDependency calls.
//
//   C18.mgr <calls> <targets>  <call results> <DependenciesForModule of every registered module after each call>
//           <final queries> <initFn call order> <result> <service keys>
//
// Module numbers are handed out in order of first registration; R<m>:<hasInit><opt> with m >= the number of
// registered modules registers a new name, with a smaller m it registers that name AGAIN.

import (
	"sort"
	"strconv"
	"strings"

	"github.com/go-kit/log"

	"github.com/grafana/dskit/modules"
	"github.com/grafana/dskit/services"
)

func c18MgrCase(e *env, scheme int, calls []string, targets []int) {
	end := e.begin("C18.mgr\t" + strings.Join(calls, ";") + "\t" + ints(targets))
	defer end()
	mm := modules.NewManager(log.NewNopLogger())
	n := 0
	var initLog []int
	var results, snaps []string
	emitted := make([]string, 0, len(calls))
	for _, c := range calls {
		if c[0] == 'R' {
			parts := strings.SplitN(c[1:], ":", 2)
			m, _ := strconv.Atoi(parts[0])
			hasInit := parts[1][0] == '1'
			opt := parts[1][1]
			num := m
			if m >= n {
				num = n
				n++
			}
			idx := num
			var initFn func() (services.Service, error)
			if hasInit {
				initFn = func() (services.Service, error) {
					initLog = append(initLog, idx)
					return services.NewIdleService(nil, nil), nil
				}
			}
			name := c18NameS(scheme, num)
			switch opt {
			case '1':
				mm.RegisterModule(name, initFn, modules.UserInvisibleModule)
			case '2':
				mm.RegisterModule(name, initFn, modules.UserInvisibleTargetableModule)
			case '3':
				mm.RegisterModule(name, initFn, modules.UserInvisibleModule, modules.UserInvisibleTargetableModule)
			case '4':
				mm.RegisterModule(name, initFn, modules.UserInvisibleTargetableModule, modules.UserInvisibleModule)
			default:
				mm.RegisterModule(name, initFn)
			}
			results = append(results, "r")
		} else {
			parts := strings.SplitN(c[1:], ">", 2)
			a, _ := strconv.Atoi(parts[0])
			var ds []string
			if parts[1] != "-" && parts[1] != "" {
				for _, d := range strings.Split(parts[1], ",") {
					di, _ := strconv.Atoi(d)
					ds = append(ds, c18NameS(scheme, di))
				}
			}
			results = append(results, c18AddClass(mm.AddDependency(c18NameS(scheme, a), ds...)))
		}
		emitted = append(emitted, c)
		snaps = append(snaps, c18DepsOfAll(mm, n, scheme))
	}
	// the queries, for every registered module and one name that is not registered
	reg, vis, targ := "", "", ""
	for i := 0; i <= n; i++ {
		name := c18NameS(scheme, i)
		reg += b01(mm.IsModuleRegistered(name))
		vis += b01(mm.IsUserVisibleModule(name))
		targ += b01(mm.IsTargetableModule(name))
	}
	uv := mm.UserVisibleModuleNames()
	sorted := "1"
	if !sort.StringsAreSorted(uv) {
		sorted = "0"
	}
	var uvi []int
	for _, s := range uv {
		uvi = append(uvi, c18Idx(s))
	}
	sort.Ints(uvi)
	unreg := func() (res string) {
		defer func() {
			if recover() != nil {
				res = "panic"
			}
		}()
		mm.DependenciesForModule(c18NameS(scheme, n))
		return "ret"
	}()
	queries := reg + ";" + vis + ";" + targ + ";" + ints(uvi) + ";" + sorted + ";" + unreg
	cfg := c18cfg{names: scheme}
	lg, result, keys := c18InitOnce(mm, cfg, targets, &initLog)
	e.emit("C18.mgr", strings.Join(emitted, ";"), ints(targets), strings.Join(results, ","), strings.Join(snaps, "|"), queries, lg, result, keys)
}


func c18RandomMgrCalls(r *rng) ([]string, int) {
	n := 0
	var calls []string
	steps := 3 + r.intn(12)
	for len(calls) < steps {
		k := r.intn(10)
		switch {
		case n == 0 || k < 3 && n < 7:
			m := n
			if r.intn(4) == 0 {
				m = n + 1 + r.intn(3)
			}
			hi := 1
			if r.intn(5) == 0 {
				hi = 0
			}
			calls = append(calls, "R"+strconv.Itoa(m)+":"+strconv.Itoa(hi)+strconv.Itoa(r.intn(5)))
			n++
		case k < 5:
			// register an existing name again
			calls = append(calls, "R"+strconv.Itoa(r.intn(n))+":"+strconv.Itoa(r.intn(2))+strconv.Itoa(r.intn(5)))
		default:
			a := r.intn(n + 1) // n = a name that is not registered (yet)
			cnt := 1 + r.intn(2)
			if r.intn(8) == 0 {
				cnt = 0
			}
			var ds []string
			for j := 0; j < cnt; j++ {
				ds = append(ds, strconv.Itoa(r.intn(n+1)))
			}
			if r.intn(10) == 0 {
				ds = append(ds, strconv.Itoa(a))
			}
			d := "-"
			if len(ds) > 0 {
				d = strings.Join(ds, ",")
			}
			calls = append(calls, "A"+strconv.Itoa(a)+">"+d)
		}
	}
	return calls, n
}

func runC18Mgr(e *env) {
	// the quirk itself: 2 -> 1 -> 0, then 1 is registered again: 2 still depends on 1, no longer on 0
	fixed := [][]string{
		{"R0:10", "R1:10", "R2:10", "A1>0", "A2>1", "R1:01", "A0>2", "A1>2"},
		{"R0:10", "R1:10", "A1>0", "R0:12", "A0>1"},
		{"R0:10", "R0:00", "A0>0"},
		{"R5:10", "R1:13", "A0>1", "R1:14", "R0:10", "A1>0"},
	}
	for _, c := range fixed {
		n := 0
		for _, x := range c {
			if x[0] == 'R' {
				m, _ := strconv.Atoi(strings.SplitN(x[1:], ":", 2)[0])
				if m >= n {
					n++
				}
			}
		}
		all := make([]int, n)
		for i := range all {
			all[i] = i
		}
		c18MgrCase(e, 0, c, all)
		c18MgrCase(e, 3, c, []int{n - 1})
	}
	r := newRng(e.seed, 41)
	cases := 1200 * e.scale
	for i := 0; i < cases; i++ {
		calls, n := c18RandomMgrCalls(r)
		var targets []int
		for t := 0; t < 1+r.intn(3); t++ {
			if r.intn(12) == 0 {
				targets = append(targets, n) // a name that is not registered
			} else {
				targets = append(targets, r.intn(n))
			}
		}
		c18MgrCase(e, r.intn(6)*r.intn(7), calls, targets)
	}
}
