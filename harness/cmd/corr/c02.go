package main

import (
	"math"
	"sort"
	"strconv"
	"strings"

	"github.com/grafana/dskit/ring"
)

// C02 — every successful quorum write shares a replica with every successful quorum read.
//
// Line: C02.rw cfg now desc key | ringTokens Wids WmaxErrors Werr Rids RmaxErrors RmaxUnavailableZones Rzone Rerr
// W = Ring.Get(key, Write), R = Ring.GetReplicationSetForOperation(Read) on the same ring
// (built like C01's: relative heartbeats, see c01.go).

func init() { register("C02", runC02) }

func c02Emit(e *env, b *c01Built, key uint32) {
	w, werr := b.r.Get(key, ring.Write, nil, nil, nil)
	wIds := "-"
	if len(w.Instances) > 0 {
		s := make([]string, len(w.Instances))
		for i, in := range w.Instances {
			s[i] = showStr(in.Id)
		}
		wIds = strings.Join(s, ",")
	}
	r, rerr := b.r.GetReplicationSetForOperation(ring.Read)
	rIds := "-"
	if len(r.Instances) > 0 {
		s := make([]string, len(r.Instances))
		for i, in := range r.Instances {
			s[i] = showStr(in.Id)
		}
		sort.Strings(s)
		rIds = strings.Join(s, ",")
	}
	za := "0"
	if r.ZoneAwarenessEnabled {
		za = "1"
	}
	e.emit("C02.rw", b.cfg.String(), "0", b.relEnc, strconv.FormatUint(uint64(key), 10),
		u32s(b.toks), wIds, itoa(w.MaxErrors), c01ErrClass(werr), rIds, itoa(r.MaxErrors), itoa(r.MaxUnavailableZones), za, c01ErrClass(rerr))
}

func runC02(e *env) {
	allZones := []string{"a", "b", "c", "d", "e"}
	gen := func(r *rng, stream int, c int) {
		cfg := c01Cfg{rf: 1 + r.intn(5), za: r.chance(1, 2), timeout: 60}
		nz := 1 + r.intn(5) // 1..5 zones: fewer, equal and more than RF all occur
		zones := append([]string(nil), allZones[:nz]...)
		if !cfg.za && r.chance(1, 4) {
			zones = append(zones, "")
		}
		g := c01Gen{minInst: 1, maxInst: 7, maxTokens: 4, pAlphabet: 1, zones: zones, tokenless: r.chance(1, 4)}
		switch stream {
		case 0: // mostly healthy: both lookups usually succeed
			g.states = []ring.InstanceState{ring.ACTIVE, ring.ACTIVE, ring.ACTIVE, ring.ACTIVE, ring.ACTIVE, ring.ACTIVE, ring.LEAVING, ring.PENDING, ring.JOINING}
		case 1: // all states
			g.states = c01States
		default: // every zone populated, one instance per zone first (zone-aware sweet spot)
			g.states = []ring.InstanceState{ring.ACTIVE, ring.ACTIVE, ring.ACTIVE, ring.ACTIVE, ring.JOINING, ring.LEAVING}
			g.minInst = nz
			if g.minInst > g.maxInst {
				g.maxInst = g.minInst
			}
		}
		d := c01GenDesc(r, g)
		if stream == 2 { // spread the first nz instances over the nz zones
			ids := make([]string, 0, len(d.Ingesters))
			for id := range d.Ingesters {
				ids = append(ids, id)
			}
			sort.Strings(ids)
			for k, id := range ids {
				if k < nz {
					in := d.Ingesters[id]
					in.Zone = zones[k]
					d.Ingesters[id] = in
				}
			}
		}
		if stream != 1 { // fewer stale heartbeats so that quorums are reachable
			for id, in := range d.Ingesters {
				if in.Timestamp == -100000 && r.chance(2, 3) {
					in.Timestamp = 0
				}
				if in.Timestamp == -1800 {
					in.Timestamp = -1
				}
				d.Ingesters[id] = in
			}
		}
		b := c01Build(cfg, d)
		keys := c01Keys(r, b.rel, 2)
		n := 0
		for _, k := range keys {
			if len(keys) > 6 && !r.chance(6, len(keys)) && k != 0 && k != math.MaxUint32 {
				continue
			}
			c02Emit(e, b, k)
			n++
		}
	}
	for s := 0; s < 3; s++ {
		r := newRng(e.seed, uint64(200+s))
		for c := 0; c < 700*e.scale; c++ {
			gen(r, s, c)
		}
	}
}
