package main

import (
	"errors"
	"sort"
	"strconv"
	"strings"
	"time"

	"github.com/grafana/dskit/ring"
)

// C14: reported token ranges vs. key ownership.
//
//	C14.inst  <desc> <za,rf,op,id> <keys>  ||  <ranges> <includes-bits> <owner of each key inside id's zone via Ring.Get>
//	C14.tile  <desc> <za,rf>       <->     ||  <id=ranges;...>            (all instances)
//	C14.part  <pdesc> <pid>        <keys>  ||  <ranges> <bits> <ranges on the ACTIVE-only sub-ring> <bits> <ActivePartitionForKey per key>
//	C14.ptile <pdesc> <->          <->     ||  <pid=ranges;...> <pid=ranges on ACTIVE-only sub-ring;...>
//	C14.inc   <ranges> <keys>      <->     ||  <bits>
func init() { register("C14", runC14) }

const c14Max = uint32(1<<32 - 1)

// far-future heartbeat: always healthy, and the case line does not depend on the wall clock.
const c14Heartbeat = int64(4102444800)

var c14Alphabet = []uint32{0, 1, 2, c14Max - 2, c14Max - 1, c14Max}

// all states healthy, none extends the replica set: lookups do not depend on instance state.
var c14OpAll = ring.NewOp([]ring.InstanceState{ring.ACTIVE, ring.LEAVING, ring.PENDING, ring.JOINING}, nil)

func c14InstErr(err error) string {
	switch {
	case errors.Is(err, ring.ErrInstanceNotFound):
		return "notFound"
	case errors.Is(err, ring.ErrInconsistentTokensInfo):
		return "inconsistent"
	case errors.Is(err, ring.ErrPartitionDoesNotExist):
		return "partitionDoesNotExist"
	case errors.Is(err, ring.ErrNoActivePartitionFound):
		return "noActivePartition"
	case err.Error() == "zone not set":
		return "zoneNotSet"
	case strings.HasPrefix(err.Error(), "can't use ring configuration"):
		return "badConfig"
	case err.Error() == "no tokens for zone":
		return "noTokensForZone"
	}
	return "other(" + err.Error() + ")"
}

func c14Ranges(tr ring.TokenRanges, err error) string {
	if err != nil {
		return "err:" + c14InstErr(err)
	}
	return "ok:" + u32s(tr)
}

func c14Bits(tr ring.TokenRanges, err error, keys []uint32) string {
	if err != nil || len(keys) == 0 {
		return "-"
	}
	b := make([]byte, len(keys))
	for i, k := range keys {
		if tr.IncludesKey(k) {
			b[i] = '1'
		} else {
			b[i] = '0'
		}
	}
	return string(b)
}

// keys of the boundary classes: every token, token±1, 0, 2^32-1 (+ random ones), deduplicated, sorted.
func c14Keys(r *rng, tokens []uint32, maxTok, nrand int) []uint32 {
	set := map[uint32]bool{0: true, c14Max: true}
	if len(tokens) > maxTok {
		for i := 0; i < maxTok; i++ {
			t := tokens[r.intn(len(tokens))]
			set[t], set[t-1], set[t+1] = true, true, true
		}
		// always the extremes of the layout
		sorted := append([]uint32(nil), tokens...)
		sort.Slice(sorted, func(a, b int) bool { return sorted[a] < sorted[b] })
		for _, t := range []uint32{sorted[0], sorted[len(sorted)-1]} {
			set[t], set[t-1], set[t+1] = true, true, true
		}
	} else {
		for _, t := range tokens {
			set[t], set[t-1], set[t+1] = true, true, true
		}
	}
	for i := 0; i < nrand; i++ {
		set[r.u32()] = true
	}
	ks := make([]uint32, 0, len(set))
	for k := range set {
		ks = append(ks, k)
	}
	sort.Slice(ks, func(a, b int) bool { return ks[a] < ks[b] })
	return ks
}

func c14AllTokens(d *ring.Desc) []uint32 {
	var ts []uint32
	for _, i := range d.Ingesters {
		ts = append(ts, i.Tokens...)
	}
	return ts
}

func c14SortedIDs(d *ring.Desc) []string {
	ids := make([]string, 0, len(d.Ingesters))
	for id := range d.Ingesters {
		ids = append(ids, id)
	}
	sort.Strings(ids)
	return ids
}

// c14Ring runs all observations for one ring descriptor.
func c14Ring(e *env, d *ring.Desc, za bool, rf int, opName string, ids []string, keys []uint32, tile bool) {
	cfg := ring.Config{HeartbeatTimeout: time.Hour, ReplicationFactor: rf, ZoneAwarenessEnabled: za}
	rg, err := ring.VerifNewRing(cfg, cloneDesc(d), nil)
	if err != nil {
		panic(err)
	}
	c14Observe(e, "C14.inst", "C14.tile", "", rg, d, za, rf, opName, ids, keys, tile)
}

// c14Observe runs the observations on rg, a ring (or sub-ring) whose members are the entries of d.
// extra is appended to the configuration field (sub-rings: how the sub-ring was obtained).
func c14Observe(e *env, cmdInst, cmdTile, extra string, rg ring.ReadRing, d *ring.Desc, za bool, rf int, opName string, ids []string, keys []uint32, tile bool) {
	descStr := encDesc(d)
	op := ring.Write
	if opName == "N" {
		op = c14OpAll
	}
	zaS := "0"
	if za {
		zaS = "1"
	}
	// Ring.Get for every key, once
	type got struct {
		insts []ring.InstanceDesc
		err   error
	}
	gets := make([]got, len(keys))
	for i, k := range keys {
		rs, err := rg.Get(k, op, nil, nil, nil)
		gets[i] = got{append([]ring.InstanceDesc(nil), rs.Instances...), err}
	}
	for _, id := range ids {
		tr, err := rg.GetTokenRangesForInstance(id)
		zone := d.Ingesters[id].Zone
		owners := make([]string, len(keys))
		for i := range keys {
			if gets[i].err != nil {
				owners[i] = "!"
				continue
			}
			var in []string
			for _, x := range gets[i].insts {
				if x.Zone == zone {
					in = append(in, x.Id)
				}
			}
			sort.Strings(in)
			if len(in) == 0 {
				owners[i] = "~"
			} else {
				owners[i] = strings.Join(in, "+")
			}
		}
		os := "-"
		if len(keys) > 0 && err == nil {
			os = strings.Join(owners, ",")
		}
		e.emit(cmdInst, descStr, zaS+","+itoa(rf)+","+opName+","+id+extra, u32s(keys), c14Ranges(tr, err), c14Bits(tr, err, keys), os)
	}
	if tile {
		all := c14SortedIDs(d)
		ps := make([]string, len(all))
		for i, id := range all {
			tr, err := rg.GetTokenRangesForInstance(id)
			ps[i] = id + "=" + c14Ranges(tr, err)
		}
		e.emit(cmdTile, descStr, zaS+","+itoa(rf)+extra, "-", strings.Join(ps, ";"))
	}
}

// c14Subrings: ranges vs. ownership and tiling on the SUB-RINGS returned by ShuffleShard. The sub-ring is
// observed through the ReadRing it returns; its members are read from the implementation (VerifSubringIDs) and
// the line carries the descriptor restricted to them (the model treats the sub-ring as the ring of its members).
//
//	C14.sinst <member desc> <za,rf,op,id,shard-identifier,shard-size,parent-size> <keys> || as C14.inst
//	C14.stile <member desc> <za,rf,shard-identifier,shard-size,parent-size> <-> || as C14.tile
func c14Subrings(e *env) {
	r := newRng(e.seed, 1406)
	zoneNames := []string{"a", "b", "c"}
	n := 700 * e.scale
	for c := 0; c < n; c++ {
		nz := 2 + r.intn(2)
		d := ring.NewDesc()
		used := map[uint32]bool{}
		withMax := r.chance(2, 3)
		k := 0
		for z := 0; z < nz; z++ {
			ni := 1 + r.intn(3)
			for j := 0; j < ni; j++ {
				id := "i" + itoa(k)
				inst := ring.InstanceDesc{Id: id, Addr: "a" + itoa(k), State: ring.ACTIVE, Zone: zoneNames[z], Timestamp: c14Heartbeat}
				nt := 1 + r.intn(3)
				for t := 0; t < nt; t++ {
					for tries := 0; tries < 50; tries++ {
						var tok uint32
						switch {
						case withMax && !used[c14Max] && r.chance(1, 2):
							tok = c14Max
						case r.chance(3, 4):
							tok = pick(r, boundaryTokens)
						default:
							tok = r.u32()
						}
						if used[tok] {
							continue
						}
						used[tok] = true
						inst.Tokens = append(inst.Tokens, tok)
						break
					}
				}
				sort.Slice(inst.Tokens, func(a, b int) bool { return inst.Tokens[a] < inst.Tokens[b] })
				if r.chance(1, 6) {
					inst.ReadOnly = true
					inst.ReadOnlyUpdatedTimestamp = 10
				}
				d.Ingesters[id] = inst
				k++
			}
		}
		cfg := ring.Config{HeartbeatTimeout: time.Hour, ReplicationFactor: nz, ZoneAwarenessEnabled: true}
		rg, err := ring.VerifNewRing(cfg, cloneDesc(d), nil)
		if err != nil {
			panic(err)
		}
		sizes := []int{0, 1 + r.intn(3), nz, 100}
		for _, size := range []int{sizes[r.intn(len(sizes))], sizes[r.intn(len(sizes))]} {
			ident := "tenant-" + itoa(r.intn(4))
			sub := rg.ShuffleShard(ident, size)
			members := ring.VerifSubringIDs(sub)
			sort.Strings(members)
			md := ring.NewDesc()
			for _, id := range members {
				md.Ingesters[id] = d.Ingesters[id]
			}
			if len(members) == 0 {
				continue
			}
			keys := c14Keys(r, c14AllTokens(md), 12, 2)
			extra := "," + ident + "," + itoa(size) + "," + itoa(len(d.Ingesters))
			c14Observe(e, "C14.sinst", "C14.stile", extra, sub, md, true, nz, "W", members, keys, true)
		}
	}
}

func c14Zones(d *ring.Desc) int {
	z := map[string]bool{}
	for _, i := range d.Ingesters {
		z[i.Zone] = true
	}
	return len(z)
}

// exhaustive universe: every alphabet token is unowned or owned by one of <=3 instances (<=3 tokens
// each, owner labels in order of first appearance), times every grouping of the instances into zones.
func c14ExhaustiveInst(e *env) {
	r := newRng(e.seed, 1401)
	zonings := map[int][][]string{
		1: {{"a"}},
		2: {{"a", "a"}, {"a", "b"}},
		3: {{"a", "a", "a"}, {"a", "a", "b"}, {"a", "b", "a"}, {"b", "a", "a"}, {"a", "b", "c"}},
	}
	n := len(c14Alphabet)
	total := 1
	for i := 0; i < n; i++ {
		total *= 4
	}
	for code := 0; code < total; code++ {
		owner := make([]int, n)
		c := code
		next, ok := 0, true
		cnt := [3]int{}
		for i := 0; i < n; i++ {
			owner[i] = c%4 - 1
			c /= 4
			if owner[i] >= 0 {
				if owner[i] > next {
					ok = false
					break
				}
				if owner[i] == next {
					next++
				}
				cnt[owner[i]]++
				if cnt[owner[i]] > 3 {
					ok = false
					break
				}
			}
		}
		if !ok || next == 0 {
			continue
		}
		for _, zoning := range zonings[next] {
			d := ring.NewDesc()
			for k := 0; k < next; k++ {
				id := "i" + itoa(k)
				inst := ring.InstanceDesc{Id: id, Addr: "a" + itoa(k), State: ring.ACTIVE, Zone: zoning[k], Timestamp: c14Heartbeat}
				for i := 0; i < n; i++ {
					if owner[i] == k {
						inst.Tokens = append(inst.Tokens, c14Alphabet[i])
					}
				}
				d.Ingesters[id] = inst
			}
			keys := c14Keys(r, c14AllTokens(d), 100, 0)
			keys = append(keys, 1<<31)
			sort.Slice(keys, func(a, b int) bool { return keys[a] < keys[b] })
			c14Ring(e, d, true, c14Zones(d), "W", c14SortedIDs(d), keys, true)
		}
	}
}

func c14RandomInst(e *env) {
	r := newRng(e.seed, 1402)
	zoneNames := []string{"a", "b", "c", "d"}
	n := 2500 * e.scale
	for c := 0; c < n; c++ {
		nz := 1 + r.intn(3)
		if r.chance(1, 20) {
			nz = 4
		}
		o := ringGenOpts{maxInst: 2 + r.intn(7), maxTokens: 1 + r.intn(6), zones: zoneNames[:nz], now: c14Heartbeat, uniqueTokens: true,
			smallTokenSpace: r.chance(2, 3), allowTokenless: r.chance(1, 4)}
		opName := "W"
		o.states = []ring.InstanceState{ring.ACTIVE}
		if r.chance(1, 4) {
			opName = "N"
			o.states = []ring.InstanceState{ring.ACTIVE, ring.ACTIVE, ring.LEAVING, ring.PENDING, ring.JOINING}
		}
		if c%50 == 49 { // a big ring
			o.maxInst, o.maxTokens, o.smallTokenSpace = 12+r.intn(20), 16+r.intn(48), r.chance(1, 5)
		}
		d := genDesc(r, o)
		for id, i := range d.Ingesters { // fixed heartbeat (genDesc subtracts small amounts / makes some stale)
			i.Timestamp, i.RegisteredTimestamp = c14Heartbeat, 0
			d.Ingesters[id] = i
		}
		// every zone present in the ring must hold a token (a zone of token-less instances is not a working zone);
		// keep a few such rings to reach "no tokens for zone" (observed on the ranges only).
		zt := map[string]int{}
		for _, i := range d.Ingesters {
			zt[i.Zone] += len(i.Tokens)
		}
		emptyZone := false
		for _, c := range zt {
			if c == 0 {
				emptyZone = true
			}
		}
		za, rf := true, c14Zones(d)
		switch {
		case r.chance(1, 25):
			za = false
		case r.chance(1, 25):
			rf = 1 + r.intn(4)
		}
		if r.chance(1, 60) { // a ring without zones at all
			for id, i := range d.Ingesters {
				i.Zone = ""
				d.Ingesters[id] = i
			}
			rf, emptyZone = 1, false
		}
		// descriptors written by old lifecycler versions may hold UNSORTED token lists (consul/etcd/in-memory stores
		// do not normalise them); the ring sorts them on load (Desc.GetTokens / getTokensByZone)
		if r.chance(1, 4) {
			for id, i := range d.Ingesters {
				if len(i.Tokens) >= 2 && r.chance(2, 3) {
					toks := append([]uint32(nil), i.Tokens...)
					for a := len(toks) - 1; a > 0; a-- {
						b := r.intn(a + 1)
						toks[a], toks[b] = toks[b], toks[a]
					}
					if r.chance(1, 2) { // descending: the worst case for a merge that assumes sorted inputs
						sort.Slice(toks, func(a, b int) bool { return toks[a] > toks[b] })
					}
					i.Tokens = toks
					d.Ingesters[id] = i
				}
			}
		}
		ids := c14SortedIDs(d)
		if len(ids) > 4 {
			for i := len(ids) - 1; i > 0; i-- {
				j := r.intn(i + 1)
				ids[i], ids[j] = ids[j], ids[i]
			}
			ids = ids[:4]
			sort.Strings(ids)
		}
		if r.chance(1, 30) {
			ids = append(ids, "missing")
		}
		var keys []uint32
		if !emptyZone {
			keys = c14Keys(r, c14AllTokens(d), 12, 4)
		}
		c14Ring(e, d, za, rf, opName, ids, keys, !emptyZone)
	}
}

// ---- partitions ----

type c14Part struct {
	id     int32
	state  ring.PartitionState
	tokens []uint32
}

func c14PDesc(ps []c14Part) *ring.PartitionRingDesc {
	d := ring.NewPartitionRingDesc()
	for _, p := range ps {
		d.Partitions[p.id] = ring.PartitionDesc{Id: p.id, State: p.state, Tokens: append([]uint32(nil), p.tokens...), StateTimestamp: 10}
	}
	return d
}

// c14EncPDesc is the canonical line encoding of a PartitionRingDesc shared with lean/Model/C14.lean.
func c14EncPDesc(d *ring.PartitionRingDesc) string { return encPDescOpt(d, false) }

// encPDescOpt with elide=true writes token lists longer than 8 as "*<count>" (histories never look at token values).
func encPDescOpt(d *ring.PartitionRingDesc, elide bool) string {
	pids := make([]int, 0, len(d.Partitions))
	for id := range d.Partitions {
		pids = append(pids, int(id))
	}
	sort.Ints(pids)
	ps := make([]string, len(pids))
	for i, id := range pids {
		p := d.Partitions[int32(id)]
		lk := "0"
		if p.StateChangeLocked {
			lk = "1"
		}
		toks := u32s(p.Tokens)
		if elide && len(p.Tokens) > 8 {
			toks = "*" + itoa(len(p.Tokens))
		}
		ps[i] = strings.Join([]string{itoa(id), itoa(int(p.State)), strconv.FormatInt(p.StateTimestamp, 10), lk,
			strconv.FormatInt(p.StateChangeLockedTimestamp, 10), toks}, "/")
	}
	oids := make([]string, 0, len(d.Owners))
	for id := range d.Owners {
		oids = append(oids, id)
	}
	sort.Strings(oids)
	os := make([]string, len(oids))
	for i, id := range oids {
		o := d.Owners[id]
		os[i] = strings.Join([]string{showStr(strings.ReplaceAll(id, "/", "%")), itoa(int(o.OwnedPartition)), itoa(int(o.State)), strconv.FormatInt(o.UpdatedTimestamp, 10)}, "/")
	}
	a, b := "-", "-"
	if len(ps) > 0 {
		a = strings.Join(ps, ";")
	}
	if len(os) > 0 {
		b = strings.Join(os, ";")
	}
	return a + "|" + b
}

func c14ActiveOnly(d *ring.PartitionRingDesc) ring.PartitionRingDesc {
	act := map[int32]struct{}{}
	for id, p := range d.Partitions {
		if p.IsActive() {
			act[id] = struct{}{}
		}
	}
	return d.WithPartitions(act)
}

func c14PartRing(e *env, d *ring.PartitionRingDesc, pids []int32, keys []uint32, tile bool) {
	s := c14EncPDesc(d)
	full, err := ring.NewPartitionRing(*d)
	if err != nil {
		panic(err)
	}
	act, err := ring.NewPartitionRing(c14ActiveOnly(d))
	if err != nil {
		panic(err)
	}
	owners := make([]string, len(keys))
	for i, k := range keys {
		p, err := full.ActivePartitionForKey(k)
		if err != nil {
			owners[i] = "!"
		} else {
			owners[i] = itoa(int(p))
		}
	}
	for _, pid := range pids {
		tf, ef := full.GetTokenRangesForPartition(pid)
		ta, ea := act.GetTokenRangesForPartition(pid)
		e.emit("C14.part", s, itoa(int(pid)), u32s(keys), c14Ranges(tf, ef), c14Bits(tf, ef, keys), c14Ranges(ta, ea), c14Bits(ta, ea, keys), strings.Join(owners, ","))
	}
	if tile {
		all := full.PartitionIDs()
		a, b := make([]string, len(all)), make([]string, len(all))
		for i, pid := range all {
			tf, ef := full.GetTokenRangesForPartition(pid)
			ta, ea := act.GetTokenRangesForPartition(pid)
			a[i] = itoa(int(pid)) + "=" + c14Ranges(tf, ef)
			b[i] = itoa(int(pid)) + "=" + c14Ranges(ta, ea)
		}
		e.emit("C14.ptile", s, "-", "-", strings.Join(a, ";"), strings.Join(b, ";"))
	}
}

func c14ExhaustivePart(e *env) {
	r := newRng(e.seed, 1403)
	n := len(c14Alphabet)
	total := 1
	for i := 0; i < n; i++ {
		total *= 4
	}
	states := []ring.PartitionState{ring.PartitionActive, ring.PartitionInactive, ring.PartitionPending}
	for code := 0; code < total; code++ {
		owner := make([]int, n)
		c := code
		next, ok := 0, true
		cnt := [3]int{}
		for i := 0; i < n; i++ {
			owner[i] = c%4 - 1
			c /= 4
			if owner[i] >= 0 {
				if owner[i] > next {
					ok = false
					break
				}
				if owner[i] == next {
					next++
				}
				cnt[owner[i]]++
				if cnt[owner[i]] > 3 {
					ok = false
					break
				}
			}
		}
		if !ok || next == 0 {
			continue
		}
		// all state mixes over {A,I,P} in the thorough tier; all-active + 2 sampled mixes in quick
		mixes := 1
		for k := 0; k < next; k++ {
			mixes *= 3
		}
		var chosen []int
		if e.quick {
			chosen = []int{0}
			if mixes > 1 {
				chosen = append(chosen, 1+r.intn(mixes-1), 1+r.intn(mixes-1))
			}
		} else {
			for m := 0; m < mixes; m++ {
				chosen = append(chosen, m)
			}
		}
		for _, m := range chosen {
			var ps []c14Part
			var pids []int32
			mm := m
			for k := 0; k < next; k++ {
				p := c14Part{id: int32(k), state: states[mm%3]}
				mm /= 3
				for i := 0; i < n; i++ {
					if owner[i] == k {
						p.tokens = append(p.tokens, c14Alphabet[i])
					}
				}
				ps = append(ps, p)
				pids = append(pids, p.id)
			}
			d := c14PDesc(ps)
			var toks []uint32
			for _, p := range ps {
				toks = append(toks, p.tokens...)
			}
			keys := c14Keys(r, toks, 100, 0)
			keys = append(keys, 1<<31)
			sort.Slice(keys, func(a, b int) bool { return keys[a] < keys[b] })
			c14PartRing(e, d, pids, keys, true)
		}
	}
}

func c14RandomPart(e *env) {
	r := newRng(e.seed, 1404)
	n := 2000 * e.scale
	for c := 0; c < n; c++ {
		np := 1 + r.intn(8)
		maxTok := 1 + r.intn(5)
		small := r.chance(2, 3)
		generated := r.chance(1, 6) // tokens as AddPartition generates them (spread-minimising generator)
		if c%40 == 39 {
			np, maxTok, small = 10+r.intn(11), 8+r.intn(24), false
		}
		if generated && np > 5 {
			np = 2 + r.intn(4)
		}
		allActive := r.chance(1, 3)
		d := ring.NewPartitionRingDesc()
		used := map[uint32]bool{}
		var toks []uint32
		var pids []int32
		for k := 0; k < np; k++ {
			id := int32(k)
			if r.chance(1, 5) {
				id = int32(k + 10*(1+r.intn(3)))
			}
			if _, dup := d.Partitions[id]; dup {
				continue
			}
			st := ring.PartitionActive
			if !allActive {
				st = pick(r, []ring.PartitionState{ring.PartitionActive, ring.PartitionActive, ring.PartitionInactive, ring.PartitionPending})
			}
			if generated {
				d.AddPartition(id, st, time.Unix(10, 0))
				p := d.Partitions[id]
				toks = append(toks, p.Tokens...)
			} else {
				p := ring.PartitionDesc{Id: id, State: st, StateTimestamp: 10}
				nt := r.intn(maxTok + 1)
				for j := 0; j < nt; j++ {
					for tries := 0; tries < 50; tries++ {
						var t uint32
						if small && r.chance(3, 4) {
							t = pick(r, boundaryTokens)
						} else {
							t = r.u32()
						}
						if used[t] {
							continue
						}
						used[t] = true
						p.Tokens = append(p.Tokens, t)
						break
					}
				}
				sort.Slice(p.Tokens, func(a, b int) bool { return p.Tokens[a] < p.Tokens[b] })
				toks = append(toks, p.Tokens...)
				d.Partitions[id] = p
			}
			pids = append(pids, id)
		}
		if len(pids) > 4 {
			for i := len(pids) - 1; i > 0; i-- {
				j := r.intn(i + 1)
				pids[i], pids[j] = pids[j], pids[i]
			}
			pids = pids[:4]
		}
		sort.Slice(pids, func(a, b int) bool { return pids[a] < pids[b] })
		if r.chance(1, 30) {
			pids = append(pids, 999)
		}
		keys := c14Keys(r, toks, 12, 4)
		c14PartRing(e, d, pids, keys, !generated || c%4 == 0)
	}
}

// ---- aliasing: results of accessors that document a copy must not alias the ring's state ----

// c14PartObs: everything C14 observes on a partition ring, as one string.
func c14PartObs(pr *ring.PartitionRing, pids []int32, keys []uint32) string {
	var b []string
	for _, pid := range pids {
		tr, err := pr.GetTokenRangesForPartition(pid)
		b = append(b, itoa(int(pid))+"="+c14Ranges(tr, err)+"/"+c14Bits(tr, err, keys)+"/"+strings.Join(pr.PartitionOwnerIDsCopy(pid), "+"))
	}
	owners := make([]string, len(keys))
	for i, k := range keys {
		p, err := pr.ActivePartitionForKey(k)
		if err != nil {
			owners[i] = "!"
		} else {
			owners[i] = itoa(int(p))
		}
	}
	ids := func(xs []int32) string {
		o := make([]string, len(xs))
		for i, x := range xs {
			o[i] = itoa(int(x))
		}
		return strings.Join(o, "+")
	}
	return strings.Join(b, ";") + "|" + strings.Join(owners, ",") + "|" + ids(pr.PartitionIDs()) + "|" + ids(pr.ActivePartitionIDs())
}

// c14Scribble overwrites, in place, every accessor result of pr that is documented as a copy the caller may modify.
func c14Scribble(pr *ring.PartitionRing, pids []int32) {
	for _, p := range pr.Partitions() { // "The returned slice is a deep copy, so the caller can freely manipulate it."
		for i, j := 0, len(p.Tokens)-1; i < j; i, j = i+1, j-1 {
			p.Tokens[i], p.Tokens[j] = p.Tokens[j], p.Tokens[i]
		}
		for i := range p.Tokens {
			p.Tokens[i] += 7
		}
	}
	for _, xs := range [][]int32{pr.PartitionIDs(), pr.PendingPartitionIDs(), pr.ActivePartitionIDs(), pr.InactivePartitionIDs()} {
		for i := range xs {
			xs[i] = 999
		}
	}
	for _, pid := range pids {
		for _, ss := range [][]string{pr.PartitionOwnerIDsCopy(pid), pr.MultiPartitionOwnerIDs(pid, nil)} {
			for i := range ss {
				ss[i] = "scribbled"
			}
		}
		if tr, err := pr.GetTokenRangesForPartition(pid); err == nil {
			for i := range tr {
				tr[i] = 0
			}
		}
	}
}

// C14.alias <pdesc> <pids> <keys> || <observation before scribbling> <observation after scribbling>
func c14Aliasing(e *env) {
	r := newRng(e.seed, 1407)
	n := 400 * e.scale
	for c := 0; c < n; c++ {
		np := 1 + r.intn(5)
		d := ring.NewPartitionRingDesc()
		used := map[uint32]bool{}
		var toks []uint32
		var pids []int32
		for k := 0; k < np; k++ {
			id := int32(k)
			st := pick(r, []ring.PartitionState{ring.PartitionActive, ring.PartitionActive, ring.PartitionActive, ring.PartitionInactive, ring.PartitionPending})
			p := ring.PartitionDesc{Id: id, State: st, StateTimestamp: 10}
			for j, nt := 0, 1+r.intn(4); j < nt; j++ {
				for tries := 0; tries < 50; tries++ {
					t := r.u32()
					if r.chance(1, 2) {
						t = pick(r, boundaryTokens)
					}
					if used[t] {
						continue
					}
					used[t] = true
					p.Tokens = append(p.Tokens, t)
					break
				}
			}
			sort.Slice(p.Tokens, func(a, b int) bool { return p.Tokens[a] < p.Tokens[b] })
			toks = append(toks, p.Tokens...)
			d.Partitions[id] = p
			pids = append(pids, id)
			for o, no := 0, r.intn(3); o < no; o++ {
				d.Owners["ing-"+itoa(o)+"/"+itoa(k)] = ring.OwnerDesc{OwnedPartition: id, State: ring.OwnerActive, UpdatedTimestamp: 10}
			}
		}
		descStr := c14EncPDesc(d) // encoded before anything can touch it
		pr, err := ring.NewPartitionRing(*d)
		if err != nil {
			panic(err)
		}
		keys := c14Keys(r, toks, 8, 2)
		before := c14PartObs(pr, pids, keys)
		c14Scribble(pr, pids)
		if sub, err := pr.ShuffleShard("tenant-"+itoa(r.intn(3)), 1+r.intn(np)); err == nil { // sub-rings share the descriptors
			c14Scribble(sub, pids)
		}
		after := c14PartObs(pr, pids, keys)
		ps := make([]string, len(pids))
		for i, p := range pids {
			ps[i] = itoa(int(p))
		}
		e.emit("C14.alias", descStr, strings.Join(ps, ","), u32s(keys), before, after)
	}
	// instance ring: the TokenRanges a caller received are its own
	for c := 0; c < n/2; c++ {
		o := ringGenOpts{maxInst: 2 + r.intn(4), maxTokens: 1 + r.intn(4), zones: []string{"a", "b"}[:1+r.intn(2)], now: c14Heartbeat, uniqueTokens: true,
			smallTokenSpace: true, states: []ring.InstanceState{ring.ACTIVE}}
		d := genDesc(r, o)
		for id, i := range d.Ingesters {
			i.Timestamp, i.RegisteredTimestamp = c14Heartbeat, 0
			d.Ingesters[id] = i
		}
		rf := c14Zones(d)
		rg, err := ring.VerifNewRing(ring.Config{HeartbeatTimeout: time.Hour, ReplicationFactor: rf, ZoneAwarenessEnabled: true}, cloneDesc(d), nil)
		if err != nil {
			panic(err)
		}
		ids := c14SortedIDs(d)
		obs := func() string {
			ps := make([]string, len(ids))
			for i, id := range ids {
				tr, err := rg.GetTokenRangesForInstance(id)
				ps[i] = id + "=" + c14Ranges(tr, err)
			}
			return strings.Join(ps, ";")
		}
		before := obs()
		for _, id := range ids {
			if tr, err := rg.GetTokenRangesForInstance(id); err == nil {
				for i := range tr {
					tr[i] = 12345
				}
			}
		}
		e.emit("C14.ialias", encDesc(d), "1,"+itoa(rf), "-", before, obs())
	}
}

// direct IncludesKey cases on sorted range lists with duplicates and degenerate ranges
func c14Includes(e *env) {
	r := newRng(e.seed, 1405)
	n := 1500 * e.scale
	for c := 0; c < n; c++ {
		l := 2 * r.intn(5)
		if r.chance(1, 10) {
			l++ // odd length: outside the type's invariant, correspondence only
		}
		vals := make([]uint32, l)
		for i := range vals {
			switch r.intn(3) {
			case 0:
				vals[i] = pick(r, boundaryTokens)
			case 1:
				vals[i] = uint32(r.intn(12))
			default:
				vals[i] = r.u32()
			}
		}
		sort.Slice(vals, func(a, b int) bool { return vals[a] < vals[b] })
		keys := c14Keys(r, vals, 100, 3)
		tr := ring.TokenRanges(vals)
		e.emit("C14.inc", u32s(vals), u32s(keys), "-", c14Bits(tr, nil, keys))
	}
}

func runC14(e *env) {
	c14ExhaustiveInst(e)
	c14ExhaustivePart(e)
	c14RandomInst(e)
	c14RandomPart(e)
	c14Includes(e)
	c14Subrings(e)
	c14Aliasing(e)
}
