package main

// C09 real-time START-UP OUTAGE stream (judge only, tag startup=1): the REAL Lifecycler service with a token
// generator that has a can-join check (so that autoJoin reads the ring through KVStore.Get in waitBeforeJoining)
// is started on a store whose first k Get calls fail (CAS keeps working), i.e. a transient read outage exactly in
// the window between the expiry of JoinAfter and the auto-join CAS. The outage ends by itself; the lifecycler must
// retry (1 s backoff in the real code, hence real time) and still end up Running and ACTIVE with all its tokens.
//
// Line: C09.startup <scenario> <generator> <failing gets> <gets that failed> <service state> <entry state|-> <tokens in ring> <NumTokens>

import (
	"context"
	"errors"
	"fmt"
	"sync"
	"sync/atomic"
	"time"

	"github.com/go-kit/log"

	"github.com/grafana/dskit/kv"
	"github.com/grafana/dskit/kv/consul"
	"github.com/grafana/dskit/ring"
	"github.com/grafana/dskit/services"
)

// outageKV rejects the first `failing` Get calls.
type outageKV struct {
	kv.Client
	failing atomic.Int64
	failed  atomic.Int64
}

func (c *outageKV) Get(ctx context.Context, key string) (interface{}, error) {
	if c.failing.Add(-1) >= 0 {
		c.failed.Add(1)
		return nil, errors.New("verif: read rejected (injected outage)")
	}
	return c.Client.Get(ctx, key)
}

// canJoinGen is the random generator with the can-join check switched on (always allowed to join).
type canJoinGen struct{ *ring.RandomTokenGenerator }

func (canJoinGen) CanJoin(map[string]ring.InstanceDesc) error { return nil }
func (canJoinGen) CanJoinEnabled() bool                         { return true }

type outageScen struct {
	name    string
	gen     string // canjoin | spread | random
	fails   int
	observe time.Duration
}

func outageScenarios() []outageScen {
	return []outageScen{
		{"canjoin-1", "canjoin", 1, 0}, {"canjoin-2", "canjoin", 2, 0}, {"canjoin-1-observe", "canjoin", 1, 500 * time.Millisecond},
		{"spread-1", "spread", 1, 0}, {"spread-2", "spread", 2, 0}, {"canjoin-0", "canjoin", 0, 0}, {"random-2", "random", 2, 0},
	}
}

func outageRun(sc outageScen, round int) string {
	lg := log.NewNopLogger()
	inmem, closer := consul.NewInMemoryClient(ring.GetCodec(), lg, nil)
	defer closer.Close()
	store := &outageKV{Client: inmem}
	store.failing.Store(int64(sc.fails))
	const key = "outage-ring"
	id, zone, numTokens := "ingester-zone-a-0", "zone-a", 4
	var gen ring.TokenGenerator
	switch sc.gen {
	case "canjoin":
		gen = canJoinGen{ring.NewRandomTokenGeneratorWithSeed(int64(17 + round))}
	case "spread":
		g, err := ring.NewSpreadMinimizingTokenGenerator(id, zone, []string{"zone-a", "zone-b", "zone-c"}, true)
		if err != nil {
			panic(err)
		}
		gen, numTokens = g, 512
	default:
		gen = ring.NewRandomTokenGeneratorWithSeed(int64(17 + round))
	}
	var cfg ring.LifecyclerConfig
	cfg.RingConfig.KVStore.Mock = store
	cfg.RingConfig.HeartbeatTimeout = time.Minute
	cfg.NumTokens = numTokens
	cfg.HeartbeatPeriod = 200 * time.Millisecond
	cfg.HeartbeatTimeout = time.Minute
	cfg.JoinAfter = 100 * time.Millisecond
	cfg.ObservePeriod = sc.observe
	cfg.Zone = zone
	cfg.UnregisterOnShutdown = true
	cfg.Addr, cfg.Port, cfg.ID = "oa", 1, id
	cfg.RingTokenGenerator = gen
	lc, err := ring.NewLifecycler(cfg, nil, "outage", key, false, lg, nil)
	if err != nil {
		panic(err)
	}
	ctx := context.Background()
	if err := lc.StartAsync(ctx); err != nil {
		panic(err)
	}
	// the outage lasts sc.fails retries of 1 s; give the lifecycler plenty of time after it ended
	deadline := time.Now().Add(time.Duration(sc.fails+30) * time.Second) // generous: only a stuck lifecycler waits this long
	entry, ntok := "-", 0
	for time.Now().Before(deadline) {
		if st := lc.State(); st == services.Failed || st == services.Terminated {
			break
		}
		if v, err := inmem.Get(ctx, key); err == nil && v != nil {
			if i, ok := v.(*ring.Desc).Ingesters[id]; ok {
				entry, ntok = stateCode[i.State], len(i.Tokens)
				if i.State == ring.ACTIVE && lc.GetState() == ring.ACTIVE {
					break
				}
			}
		}
		time.Sleep(25 * time.Millisecond)
	}
	svc := lc.State().String()
	if v, err := inmem.Get(ctx, key); err == nil && v != nil {
		if i, ok := v.(*ring.Desc).Ingesters[id]; ok {
			entry, ntok = stateCode[i.State], len(i.Tokens)
		}
	}
	lc.StopAsync()
	_ = lc.AwaitTerminated(ctx)
	return fmt.Sprintf("C09.startup\t%s#%d\t%s\t%d\t%d\t%s\t%s\t%d\t%d", sc.name, round, sc.gen, sc.fails, store.failed.Load(), svc, entry, ntok, numTokens)
}

// outageStart launches the scenarios in the background (they run concurrently with the case generation).
func outageStart(rounds int) func() []string {
	scs := outageScenarios()
	lines := make([]string, len(scs)*rounds)
	var wg sync.WaitGroup
	for k := 0; k < rounds; k++ {
		for i, sc := range scs {
			wg.Add(1)
			go func(slot, round int, sc outageScen) {
				defer wg.Done()
				lines[slot] = outageRun(sc, round)
			}(k*len(scs)+i, k, sc)
		}
	}
	return func() []string {
		wg.Wait()
		return lines
	}
}
