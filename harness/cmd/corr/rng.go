package main

import (
	"encoding/hex"
	"strconv"
	"strings"
)

// rng is splitmix64: every random choice of a run derives from the one seed, so a case replays exactly.
type rng struct{ s uint64 }

func newRng(seed uint64, stream uint64) *rng {
	return &rng{s: seed*0x9E3779B97F4A7C15 ^ (stream+1)*0xBF58476D1CE4E5B9}
}

func (r *rng) u64() uint64 {
	r.s += 0x9E3779B97F4A7C15
	z := r.s
	z = (z ^ (z >> 30)) * 0xBF58476D1CE4E5B9
	z = (z ^ (z >> 27)) * 0x94D049BB133111EB
	return z ^ (z >> 31)
}
func (r *rng) intn(n int) int {
	if n <= 0 {
		return 0
	}
	return int(r.u64() % uint64(n))
}
func (r *rng) u32() uint32          { return uint32(r.u64() >> 32) }
func (r *rng) chance(p, q int) bool { return r.intn(q) < p }
func pick[T any](r *rng, xs []T) T  { return xs[r.intn(len(xs))] }

func hx(s string) string {
	if s == "" {
		return "-"
	}
	return hex.EncodeToString([]byte(s))
}
func hxs(ss []string) string {
	o := make([]string, len(ss))
	for i, s := range ss {
		o[i] = hx(s)
	}
	return strings.Join(o, ",")
}
func itoa(i int) string { return strconv.Itoa(i) }
func u32s(xs []uint32) string {
	if len(xs) == 0 {
		return "-"
	}
	o := make([]string, len(xs))
	for i, x := range xs {
		o[i] = strconv.FormatUint(uint64(x), 10)
	}
	return strings.Join(o, ",")
}
