package main

import (
	"sort"
	"strconv"
	"strings"

	"github.com/grafana/dskit/ring"
)

// Canonical line encoding of ring.Desc shared with lean/Model/Ring.lean (see there for the grammar).

var stateCode = map[ring.InstanceState]string{ring.ACTIVE: "A", ring.LEAVING: "L", ring.PENDING: "P", ring.JOINING: "J", ring.LEFT: "X"}
var codeState = map[string]ring.InstanceState{"A": ring.ACTIVE, "L": ring.LEAVING, "P": ring.PENDING, "J": ring.JOINING, "X": ring.LEFT}
var allStates = []ring.InstanceState{ring.ACTIVE, ring.LEAVING, ring.PENDING, ring.JOINING, ring.LEFT}

func showStr(s string) string {
	if s == "" {
		return "~"
	}
	return s
}
func unStr(s string) string {
	if s == "~" {
		return ""
	}
	return s
}

func encInst(id string, i ring.InstanceDesc) string {
	vers := "-"
	if len(i.Versions) > 0 {
		ks := make([]uint64, 0, len(i.Versions))
		for k := range i.Versions {
			ks = append(ks, k)
		}
		sort.Slice(ks, func(a, b int) bool { return ks[a] < ks[b] })
		ps := make([]string, len(ks))
		for j, k := range ks {
			ps[j] = strconv.FormatUint(k, 10) + ":" + strconv.FormatUint(i.Versions[k], 10)
		}
		vers = strings.Join(ps, ",")
	}
	ro := "0"
	if i.ReadOnly {
		ro = "1"
	}
	st, ok := stateCode[i.State]
	if !ok {
		st = "?" + strconv.Itoa(int(i.State))
	}
	return strings.Join([]string{showStr(id), showStr(i.Addr), strconv.FormatInt(i.Timestamp, 10), st, u32s(i.Tokens),
		showStr(i.Zone), strconv.FormatInt(i.RegisteredTimestamp, 10), strconv.FormatInt(i.ReadOnlyUpdatedTimestamp, 10), ro, vers}, "/")
}

// encDesc encodes the map entries in ascending key order (the map key, not InstanceDesc.Id).
func encDesc(d *ring.Desc) string {
	if d == nil || len(d.Ingesters) == 0 {
		return "-"
	}
	ids := make([]string, 0, len(d.Ingesters))
	for id := range d.Ingesters {
		ids = append(ids, id)
	}
	sort.Strings(ids)
	ps := make([]string, len(ids))
	for j, id := range ids {
		ps[j] = encInst(id, d.Ingesters[id])
	}
	return strings.Join(ps, ";")
}

func decDesc(s string) *ring.Desc {
	d := ring.NewDesc()
	if s == "-" {
		return d
	}
	for _, p := range strings.Split(s, ";") {
		f := strings.Split(p, "/")
		if len(f) != 10 {
			panic("bad inst: " + p)
		}
		i := ring.InstanceDesc{Id: unStr(f[0]), Addr: unStr(f[1]), State: codeState[f[3]], Zone: unStr(f[5]), ReadOnly: f[8] == "1"}
		i.Timestamp, _ = strconv.ParseInt(f[2], 10, 64)
		i.RegisteredTimestamp, _ = strconv.ParseInt(f[6], 10, 64)
		i.ReadOnlyUpdatedTimestamp, _ = strconv.ParseInt(f[7], 10, 64)
		if f[4] != "-" {
			for _, t := range strings.Split(f[4], ",") {
				v, _ := strconv.ParseUint(t, 10, 32)
				i.Tokens = append(i.Tokens, uint32(v))
			}
		}
		if f[9] != "-" {
			i.Versions = map[uint64]uint64{}
			for _, kv := range strings.Split(f[9], ",") {
				a := strings.Split(kv, ":")
				k, _ := strconv.ParseUint(a[0], 10, 64)
				v, _ := strconv.ParseUint(a[1], 10, 64)
				i.Versions[k] = v
			}
		}
		d.Ingesters[i.Id] = i
	}
	return d
}

// cloneDesc deep-copies a descriptor (token slices and version maps are NOT shared).
func cloneDesc(d *ring.Desc) *ring.Desc {
	o := ring.NewDesc()
	for id, i := range d.Ingesters {
		i.Tokens = append([]uint32(nil), i.Tokens...)
		if i.Versions != nil {
			m := map[uint64]uint64{}
			for k, v := range i.Versions {
				m[k] = v
			}
			i.Versions = m
		}
		o.Ingesters[id] = i
	}
	return o
}

// boundary token alphabet used by several generators
var boundaryTokens = []uint32{0, 1, 2, 7, 8, 1 << 31, 1<<32 - 3, 1<<32 - 2, 1<<32 - 1}

// ringGenOpts controls genDesc.
type ringGenOpts struct {
	maxInst, maxTokens int
	zones              []string // candidate zones ("" allowed)
	states             []ring.InstanceState
	now                int64 // heartbeats are either fresh (now) or stale (now-100000)
	uniqueTokens       bool  // globally unique tokens (well-formed ring)
	smallTokenSpace    bool  // draw from boundaryTokens mostly
	allowTokenless     bool
}

func genDesc(r *rng, o ringGenOpts) *ring.Desc {
	d := ring.NewDesc()
	n := 1 + r.intn(o.maxInst)
	used := map[uint32]bool{}
	for k := 0; k < n; k++ {
		id := "i" + strconv.Itoa(k)
		i := ring.InstanceDesc{Id: id, Addr: "a" + strconv.Itoa(k), State: pick(r, o.states), Zone: pick(r, o.zones)}
		if r.chance(4, 5) {
			i.Timestamp = o.now - int64(r.intn(3))
		} else {
			i.Timestamp = o.now - 100000
		}
		i.RegisteredTimestamp = o.now - int64(r.intn(5000))
		nt := r.intn(o.maxTokens + 1)
		if nt == 0 && !o.allowTokenless {
			nt = 1
		}
		for j := 0; j < nt; j++ {
			for tries := 0; tries < 50; tries++ {
				var t uint32
				if o.smallTokenSpace && r.chance(3, 4) {
					t = pick(r, boundaryTokens)
				} else {
					t = r.u32()
				}
				if o.uniqueTokens && used[t] {
					continue
				}
				dup := false
				for _, x := range i.Tokens {
					if x == t {
						dup = true
					}
				}
				if dup {
					continue
				}
				used[t] = true
				i.Tokens = append(i.Tokens, t)
				break
			}
		}
		sort.Slice(i.Tokens, func(a, b int) bool { return i.Tokens[a] < i.Tokens[b] })
		d.Ingesters[id] = i
	}
	return d
}
