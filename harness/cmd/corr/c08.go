//go:debug randseednop=0
package main

// C08 / C09: lifecyclers sharing one store. The real Lifecycler / BasicLifecycler handlers are fired
// one event at a time through ring/verif_hooks_c08.go (no select loops, no timers); the store is
// the in-memory consul client wrapped by a recorder that logs every (input, output) of every CAS
// callback together with the writer, and (C09) injects crashes and store faults.
//
// Clock: the handlers call time.Now() themselves. The harness keeps a VIRTUAL clock `vnow`; before
// every event it ages every timestamp remembered anywhere (store content, lifecycler fields) so that
// `stored + off` is the virtual value, with off = vnow - time.Now().Unix(). Advancing the virtual
// clock by d is thus implemented as ageing all remembered timestamps by d. All observations are
// reported in virtual seconds, so a run is deterministic from the seed.

import (
	"context"
	"encoding/json"
	"errors"
	"fmt"
	"io"
	"math/rand"
	"os"
	"path/filepath"
	"runtime"
	"sort"
	"strconv"
	"strings"
	"sync"
	"time"

	"github.com/go-kit/log"

	"github.com/grafana/dskit/kv"
	"github.com/grafana/dskit/kv/consul"
	"github.com/grafana/dskit/ring"
)

func init() {
	register("C08", runC08)
	register("C08.tables", c08Tables)
}

const c08Key = "verif-ring"
const c08V0 = int64(1000000) // virtual epoch (even; all ticks are even, thresholds odd)

var c08RandMu sync.Mutex

var errFault = errors.New("verif: injected store fault")
var errDead = errors.New("verif: process is dead")

type crashSentinel struct{}

var _ kv.Client = (*recorder)(nil)

// ---------------------------------------------------------------- configuration of one lifecycler

type lcfg struct {
	kind          byte // 'L' full Lifecycler, 'B' BasicLifecycler
	id, addr      string
	zone          string
	numTokens     int
	observe       bool
	hasFile       bool
	hbTimeout     int
	readinessRing bool
	minReady      int
	registerState ring.InstanceState
	forget        int  // 0 = no AutoForgetDelegate
	unregister    bool // unregister on shutdown (glue only)
}

func b01(b bool) string {
	if b {
		return "1"
	}
	return "0"
}

func (c lcfg) enc() string {
	return strings.Join([]string{string(c.kind), c.id, c.addr, showStr(c.zone), itoa(c.numTokens), b01(c.observe), b01(c.hasFile),
		itoa(c.hbTimeout), b01(c.readinessRing), itoa(c.minReady), stateCode[c.registerState], itoa(c.forget), b01(c.unregister)}, "/")
}

// ---------------------------------------------------------------- token generator

// tokGen is a deterministic TokenGenerator honouring the interface contract (exactly n distinct tokens,
// none of them taken, sorted) but drawing from a small space, so that a handler passing the wrong
// `taken` list would produce visible collisions.
type tokGen struct {
	r     *rng
	space uint32
	calls []string
}

func (g *tokGen) GenerateTokens(n int, taken []uint32) ring.Tokens {
	used := map[uint32]bool{}
	for _, t := range taken {
		used[t] = true
	}
	out := ring.Tokens{}
	space := g.space
	for len(out) < n {
		var c uint32
		if space == 0 {
			c = g.r.u32()
		} else {
			c = uint32(g.r.intn(int(space)))
		}
		if c == 1<<32-1 || used[c] {
			if space != 0 && len(used) >= int(space)-1 {
				space *= 2
			}
			continue
		}
		used[c] = true
		out = append(out, c)
	}
	sort.Sort(out)
	g.calls = append(g.calls, itoa(n)+"^"+u32s(taken)+"^"+u32s(out))
	return out
}
func (g *tokGen) CanJoin(map[string]ring.InstanceDesc) error { return nil }
func (g *tokGen) CanJoinEnabled() bool                       { return false }

// ---------------------------------------------------------------- recording / fault-injecting kv.Client

type recorder struct {
	w     *world
	nd    *node
	dead  bool
	fault string // n | fb | fc | cb | ca   (applies to the next CAS only; Get fails with fb)
	cas   []string
}

func (r *recorder) List(ctx context.Context, p string) ([]string, error) {
	return r.w.inner.List(ctx, p)
}
func (r *recorder) Delete(ctx context.Context, k string) error { return r.w.inner.Delete(ctx, k) }
func (r *recorder) WatchKey(ctx context.Context, k string, f func(interface{}) bool) {
	r.w.inner.WatchKey(ctx, k, f)
}
func (r *recorder) WatchPrefix(ctx context.Context, p string, f func(string, interface{}) bool) {
	r.w.inner.WatchPrefix(ctx, p, f)
}
func (r *recorder) Get(ctx context.Context, k string) (interface{}, error) {
	if r.dead {
		return nil, errDead
	}
	if r.fault == "fb" {
		return nil, errFault
	}
	return r.w.inner.Get(ctx, k)
}

func (r *recorder) CAS(ctx context.Context, key string, f func(in interface{}) (out interface{}, retry bool, err error)) error {
	if r.dead {
		return errDead
	}
	fault := r.fault
	r.fault = "n"
	if r.nd != nil && fault == "n" {
		r.nd.casSeen++
		if r.nd.crashAt > 0 && r.nd.casSeen == r.nd.crashAt {
			fault = r.nd.crashMode
			r.nd.fired = fault
		}
	}
	if fault == "fb" {
		return errFault
	}
	err := r.w.inner.CAS(ctx, key, func(in interface{}) (interface{}, bool, error) {
		inEnc := r.w.encV(in)
		out, retry, err := f(in)
		var o string
		switch {
		case err != nil:
			o = "err"
		case out == nil:
			o = "nil"
		default:
			o = "W" + r.w.encV(out)
		}
		r.cas = append(r.cas, inEnc+">"+o)
		if fault == "cb" {
			panic(crashSentinel{})
		}
		if fault == "fc" {
			return nil, false, errFault
		}
		return out, retry, err
	})
	if fault == "ca" {
		panic(crashSentinel{})
	}
	return err
}

// ---------------------------------------------------------------- world

type node struct {
	cfg       lcfg
	lc        *ring.Lifecycler
	blc       *ring.BasicLifecycler
	rec       *recorder
	gen       *tokGen
	path      string
	crashed   <-chan interface{}
	stopActor func()
	// C09: crash injected at the crashAt-th CAS call of this node (counted over all its processes)
	casSeen   int
	crashAt   int
	crashMode string
	fired     string
	// scheduler state
	lastHB     int64
	hbOff      bool
	phase      int
	joinFired  bool
	wantActive bool
	verified   bool
	stopStep   int
}

type world struct {
	inner   *consul.Client
	closer  io.Closer
	off     int64
	vnow    int64
	tracked string // virtual encoding of the store as implied by the recorded writes
	nodes   []*node
	steps   []string
	bad     bool // a real second boundary was crossed inside an event: discard and retry the case
	r       *rng
	nLeaked int
}

func newWorld(r *rng) *world {
	c, closer := consul.NewInMemoryClient(ring.GetCodec(), log.NewNopLogger(), nil)
	return &world{inner: c, closer: closer, vnow: c08V0, tracked: "nil", r: r}
}

func (w *world) close() {
	for _, nd := range w.nodes {
		nd.kill()
	}
	w.closer.Close()
}

func (nd *node) kill() {
	if nd.rec != nil {
		nd.rec.dead = true
	}
	if nd.stopActor != nil {
		nd.stopActor()
		nd.stopActor = nil
	}
	nd.lc, nd.blc = nil, nil
}

// encV encodes a CAS value in virtual time.
func (w *world) encV(v interface{}) string {
	if v == nil {
		return "nil"
	}
	d := cloneDesc(v.(*ring.Desc))
	for id, i := range d.Ingesters {
		ring.VerifShiftInstance(&i, time.Duration(-w.off)*time.Second)
		d.Ingesters[id] = i
	}
	return encDesc(d)
}

func vt(t time.Time, off int64) int64 {
	if t.IsZero() {
		return 0
	}
	return t.Unix() + off
}

// syncClock makes `stored + off == virtual` hold for the current real second; returns that second.
func (w *world) syncClock() int64 {
	var r int64
	for {
		n := time.Now()
		if n.Nanosecond() < 940_000_000 {
			r = n.Unix()
			break
		}
		time.Sleep(time.Duration(1_000_000_000-n.Nanosecond()) + time.Millisecond)
	}
	want := w.vnow - r
	if want != w.off {
		d := time.Duration(want-w.off) * time.Second
		_ = w.inner.CAS(context.Background(), c08Key, func(in interface{}) (interface{}, bool, error) {
			if in == nil {
				return nil, false, nil
			}
			desc := in.(*ring.Desc)
			for id, i := range desc.Ingesters {
				ring.VerifShiftInstance(&i, d)
				desc.Ingesters[id] = i
			}
			return desc, false, nil
		})
		for _, nd := range w.nodes {
			if nd.lc != nil {
				nd.lc.VerifShiftTime(d)
			}
			if nd.blc != nil {
				nd.blc.VerifShiftTime(d)
			}
		}
		w.off = want
	}
	return r
}

// setStore writes the initial ring (virtual timestamps) or wipes the key.
func (w *world) setStore(d *ring.Desc) {
	if d == nil {
		_ = w.inner.Delete(context.Background(), c08Key)
		w.tracked = "nil"
		return
	}
	r := time.Now().Unix()
	w.off = w.vnow - r
	real := cloneDesc(d)
	for id, i := range real.Ingesters {
		ring.VerifShiftInstance(&i, time.Duration(w.off)*time.Second)
		real.Ingesters[id] = i
	}
	_ = w.inner.CAS(context.Background(), c08Key, func(interface{}) (interface{}, bool, error) { return real, false, nil })
	w.tracked = encDesc(d)
}

// current returns the actual store content (real timestamps), nil if the key is absent.
func (w *world) current() *ring.Desc {
	v, _ := w.inner.Get(context.Background(), c08Key)
	if v == nil {
		return nil
	}
	return v.(*ring.Desc)
}

func (w *world) addNode(c lcfg, dir string, caseNo int) *node {
	nd := &node{cfg: c, path: filepath.Join(dir, fmt.Sprintf("c%d-%s.tokens", caseNo, c.id))}
	os.Remove(nd.path)
	os.Remove(nd.path + ".tmp")
	space := uint32(48)
	if w.r.chance(1, 10) {
		space = 0
	}
	nd.gen = &tokGen{r: newRng(w.r.u64(), 7), space: space}
	w.nodes = append(w.nodes, nd)
	return nd
}

// start creates a new process (lifecycler object) for the node; the previous one, if any, is dead.
func (nd *node) start(w *world) {
	nd.kill()
	nd.rec = &recorder{w: w, nd: nd, fault: "n"}
	c := nd.cfg
	path := ""
	if c.hasFile {
		path = nd.path
	}
	host, port, _ := strings.Cut(c.addr, ":")
	p, _ := strconv.Atoi(port)
	if c.kind == 'L' {
		var cfg ring.LifecyclerConfig
		cfg.RingConfig.KVStore.Mock = nd.rec
		cfg.RingConfig.HeartbeatTimeout = time.Duration(c.hbTimeout) * time.Second
		cfg.NumTokens = c.numTokens
		cfg.HeartbeatPeriod = time.Hour
		cfg.HeartbeatTimeout = time.Minute
		if c.observe {
			cfg.ObservePeriod = time.Second
		}
		cfg.MinReadyDuration = time.Duration(c.minReady) * time.Second
		cfg.TokensFilePath = path
		cfg.Zone = c.zone
		cfg.UnregisterOnShutdown = c.unregister
		cfg.ReadinessCheckRingHealth = c.readinessRing
		cfg.Addr, cfg.Port, cfg.ID = host, p, c.id
		cfg.RingTokenGenerator = nd.gen
		lc, err := ring.NewLifecycler(cfg, nil, "verif", c08Key, false, log.NewNopLogger(), nil)
		if err != nil {
			panic(err)
		}
		nd.lc = lc
		nd.crashed, nd.stopActor = lc.VerifStartActor()
	} else {
		bcfg := ring.BasicLifecyclerConfig{ID: c.id, Addr: c.addr, Zone: c.zone, HeartbeatTimeout: time.Duration(c.hbTimeout) * time.Second,
			NumTokens: c.numTokens, KeepInstanceInTheRingOnShutdown: !c.unregister, RingTokenGenerator: nd.gen}
		if c.observe {
			bcfg.TokensObservePeriod = time.Second
		}
		lg := log.NewNopLogger()
		var d ring.BasicLifecyclerDelegate = ring.NewInstanceRegisterDelegate(c.registerState, c.numTokens)
		d = ring.NewLeaveOnStoppingDelegate(d, lg)
		if c.hasFile {
			d = ring.NewTokensPersistencyDelegate(path, ring.JOINING, d, lg)
		}
		if c.forget > 0 {
			d = ring.NewAutoForgetDelegate(time.Duration(c.forget)*time.Second, d, lg)
		}
		b, err := ring.NewBasicLifecycler(bcfg, "verif", c08Key, nd.rec, d, lg, nil)
		if err != nil {
			panic(err)
		}
		nd.blc = b
	}
}

func (nd *node) fileEnc() string {
	b, err := os.ReadFile(nd.path)
	if err != nil {
		return "a"
	}
	var tj struct {
		Tokens []uint32 `json:"tokens"`
	}
	if err := json.Unmarshal(b, &tj); err != nil {
		return "c"
	}
	return "t" + u32s(tj.Tokens)
}

func (nd *node) localEnc(w *world) string {
	if nd.lc != nil {
		st, toks, reg, ro, rots, ready, since := nd.lc.VerifLocal()
		return strings.Join([]string{stateCode[st], u32s(toks), strconv.FormatInt(vt(reg, w.off), 10), b01(ro),
			strconv.FormatInt(vt(rots, w.off), 10), b01(ready), strconv.FormatInt(vt(since, w.off), 10)}, "/")
	}
	if nd.blc != nil {
		c := nd.blc.VerifCurrent()
		if c == nil {
			return "-"
		}
		ring.VerifShiftInstance(c, time.Duration(-w.off)*time.Second)
		return encInst(nd.cfg.id, *c)
	}
	return "dead"
}

func retErr(err error) string {
	if err != nil {
		return "err"
	}
	return "ok"
}
func retBool(b bool) string {
	if b {
		return "yes"
	}
	return "no"
}

// fire runs one event of node idx and appends its record. Returns the handler's return code
// ("crash" if the injected crash fired).
func (w *world) fire(idx int, ev, arg, fault string) string {
	nd := w.nodes[idx]
	if ev == "init" {
		nd.start(w)
	}
	if nd.lc == nil && nd.blc == nil {
		panic("event on a dead node: " + ev)
	}
	ctx := context.Background()
	sec := w.syncClock()
	nd.rec.cas = nd.rec.cas[:0]
	nd.rec.fault = fault
	nd.gen.calls = nd.gen.calls[:0]
	var st ring.InstanceState
	if ev == "cs" || ev == "xcs" {
		st = codeState[arg]
	}
	ret := ""
	crashed := false
	direct := func(f func()) {
		defer func() {
			if r := recover(); r != nil {
				if _, ok := r.(crashSentinel); !ok {
					panic(r)
				}
				crashed = true
			}
		}()
		f()
	}
	viaActor := func(f func() error) {
		done := make(chan error, 1)
		go func() { done <- f() }()
		select {
		case err := <-done:
			ret = retErr(err)
		case <-nd.crashed:
			crashed = true
			w.nLeaked++
		}
	}
	if nd.lc != nil {
		lc := nd.lc
		switch ev {
		case "init":
			if strings.HasPrefix(arg, "s") { // seed for rand.Shuffle in initRing (global source: serialise)
				s, _ := strconv.ParseInt(arg[1:], 10, 64)
				c08RandMu.Lock()
				rand.Seed(s)
				direct(func() { ret = retErr(lc.VerifInitRing(ctx)) })
				c08RandMu.Unlock()
			} else {
				direct(func() { ret = retErr(lc.VerifInitRing(ctx)) })
			}
		case "join":
			direct(func() { ret = retErr(lc.VerifJoinTimer(ctx)) })
		case "verify":
			direct(func() { ret = retBool(lc.VerifVerifyTokens(ctx)) })
		case "hb":
			direct(func() { ret = retErr(lc.VerifHeartbeat(ctx)) })
		case "cs": // as called by loop()/stopping()
			direct(func() { ret = retErr(lc.VerifChangeState(ctx, st)) })
		case "xcs": // the exported ChangeState, through the actor channel
			viaActor(func() error { return lc.ChangeState(ctx, st) })
		case "ro":
			viaActor(func() error { return lc.ChangeReadOnlyState(ctx, arg == "1") })
		case "claim":
			viaActor(func() error { return lc.ClaimTokensFor(ctx, arg) })
		case "unreg":
			direct(func() { ret = retErr(lc.VerifUnregister(ctx)) })
		case "ready":
			direct(func() { ret = retErr(lc.CheckReady(ctx)) })
		default:
			panic("bad LC event " + ev)
		}
	} else {
		b := nd.blc
		switch ev {
		case "init":
			direct(func() { ret = retErr(b.VerifRegisterInstance(ctx)) })
		case "verify":
			direct(func() { ret = retBool(b.VerifVerifyTokens(ctx)) })
		case "ontok":
			direct(func() { b.VerifOnTokens(); ret = "ok" })
		case "hb":
			direct(func() { b.VerifHeartbeat(ctx); ret = "ok" })
		case "cs", "xcs":
			direct(func() { ret = retErr(b.VerifChangeState(ctx, st)) })
		case "ro":
			direct(func() { ret = retErr(b.VerifChangeReadOnlyState(ctx, arg == "1")) })
		case "stopd":
			direct(func() { b.VerifStoppingDelegate(); ret = "ok" })
		case "unreg":
			direct(func() { ret = retErr(b.VerifUnregisterInstance(ctx)) })
		default:
			panic("bad BLC event " + ev)
		}
	}
	nd.rec.fault = "n"
	if nd.fired != "" {
		fault = nd.fired
		nd.fired = ""
	}
	if time.Now().Unix() != sec {
		w.bad = true
	}
	if ev == "xcs" {
		ev = "cs"
	}
	if ev == "hb" || ev == "init" {
		nd.lastHB = w.vnow
	}
	// the shuffle's realised choice is read off the observation (initRing, too many tokens)
	if ev == "init" && strings.HasPrefix(arg, "s") {
		arg = "-"
		if nd.lc != nil && !crashed {
			_, toks, _, _, _, _, _ := nd.lc.VerifLocal()
			arg = u32s(toks)
		}
	}
	cas := "x"
	if len(nd.rec.cas) > 1 {
		panic("more than one CAS callback invocation in one event: " + ev)
	}
	if len(nd.rec.cas) == 1 {
		cas = nd.rec.cas[0]
		in, out, _ := strings.Cut(cas, ">")
		if in == w.tracked {
			cas = "=>" + out
		}
		if strings.HasPrefix(out, "W") && (fault == "n" || fault == "ca") {
			w.tracked = out[1:]
		}
	}
	gen := "-"
	if len(nd.gen.calls) > 1 {
		panic("more than one generator call in one event")
	}
	if len(nd.gen.calls) == 1 {
		gen = nd.gen.calls[0]
	}
	local := ""
	if crashed {
		ret = "crash"
		nd.kill()
		local = "dead"
	} else {
		local = nd.localEnc(w)
	}
	w.steps = append(w.steps, strings.Join([]string{itoa(idx), ev, arg, fault, strconv.FormatInt(w.vnow, 10), gen, cas, ret, local, nd.fileEnc()}, "!"))
	return ret
}

// crash kills the process of node idx between two events.
func (w *world) crash(idx int) {
	nd := w.nodes[idx]
	nd.kill()
	w.steps = append(w.steps, strings.Join([]string{itoa(idx), "crash", "-", "n", strconv.FormatInt(w.vnow, 10), "-", "x", "ok", "dead", nd.fileEnc()}, "!"))
}

// wipe deletes the ring key (store lost its content).
func (w *world) wipe() {
	w.setStore(nil)
	w.steps = append(w.steps, strings.Join([]string{"E", "wipe", "-", "n", strconv.FormatInt(w.vnow, 10), "-", "x", "ok", "-", "-"}, "!"))
}

// envSteal simulates what a gossiping store's conflict resolution may do to an entry: some (or all) of
// the tokens of `id` disappear. It is an ENVIRONMENT event (not a lifecycler write).
func (w *world) envSteal(id string, all bool) {
	cur := w.current()
	if cur == nil {
		return
	}
	i, ok := cur.Ingesters[id]
	if !ok || len(i.Tokens) == 0 {
		return
	}
	if all {
		i.Tokens = nil
	} else {
		i.Tokens = i.Tokens[1:]
	}
	cur.Ingesters[id] = i
	_ = w.inner.CAS(context.Background(), c08Key, func(interface{}) (interface{}, bool, error) { return cur, false, nil })
	w.tracked = w.encV(cur)
	w.steps = append(w.steps, strings.Join([]string{"E", "set", w.tracked, "n", strconv.FormatInt(w.vnow, 10), "-", "x", "ok", "-", "-"}, "!"))
}

// ---------------------------------------------------------------- case generation (C08)

var c08Ticks = []int64{2, 2, 2, 4, 10, 30, 60, 200, 1000, 100000}

func c08GenCfgs(r *rng) []lcfg {
	n := []int{1, 1, 2, 2, 2, 2, 3, 3, 3, 4, 5}[r.intn(11)]
	mix := r.intn(20) // <8 all LC, <15 all BLC, else mixed
	nt := 1 + r.intn(4)
	hbT := pick(r, []int{61, 61, 11})
	var cs []lcfg
	for k := 0; k < n; k++ {
		c := lcfg{kind: 'L', id: "i" + itoa(k), addr: "a" + itoa(k) + ":1", zone: pick(r, []string{"", "z1", "z2"}), numTokens: nt,
			hbTimeout: hbT, registerState: ring.ACTIVE}
		if mix >= 8 && (mix < 15 || r.chance(1, 2)) {
			c.kind = 'B'
		}
		if r.chance(1, 6) {
			c.numTokens = 1 + r.intn(4)
		}
		c.observe = r.chance(2, 5)
		c.hasFile = r.chance(2, 5)
		c.readinessRing = r.chance(1, 2)
		if r.chance(1, 4) {
			c.minReady = 7
		}
		c.unregister = r.chance(1, 2)
		if c.kind == 'B' {
			c.registerState = pick(r, []ring.InstanceState{ring.ACTIVE, ring.ACTIVE, ring.JOINING, ring.JOINING, ring.PENDING})
			if r.chance(2, 5) {
				c.forget = pick(r, []int{31, 201})
			}
		}
		cs = append(cs, c)
	}
	return cs
}

// c08GenRing: foreign entries x0.. plus, for some lifecyclers, an entry left behind by an earlier process.
func c08GenRing(r *rng, cfgs []lcfg, used map[uint32]bool) *ring.Desc {
	d := ring.NewDesc()
	freshTok := func() uint32 {
		for {
			t := uint32(r.intn(64))
			if r.chance(1, 8) {
				t = r.u32()
			}
			if !used[t] && t != 1<<32-1 {
				used[t] = true
				return t
			}
		}
	}
	mk := func(id, addr, zone string, st ring.InstanceState, nt int) {
		i := ring.InstanceDesc{Id: id, Addr: addr, Zone: zone, State: st}
		switch r.intn(6) {
		case 0:
			i.Timestamp = c08V0 - 100000
		case 1:
			i.Timestamp = c08V0 - 40
		default:
			i.Timestamp = c08V0 - int64(2*r.intn(3))
		}
		i.RegisteredTimestamp = c08V0 - 2*int64(r.intn(5000))
		if r.chance(1, 6) {
			i.RegisteredTimestamp = 0
		}
		if r.chance(1, 5) {
			i.ReadOnly = r.chance(1, 2)
			i.ReadOnlyUpdatedTimestamp = c08V0 - 2*int64(r.intn(500))
		}
		for j := 0; j < nt; j++ {
			i.Tokens = append(i.Tokens, freshTok())
		}
		sort.Slice(i.Tokens, func(a, b int) bool { return i.Tokens[a] < i.Tokens[b] })
		d.Ingesters[id] = i
	}
	nf := []int{0, 0, 1, 1, 2}[r.intn(5)]
	for k := 0; k < nf; k++ {
		st := pick(r, []ring.InstanceState{ring.ACTIVE, ring.ACTIVE, ring.ACTIVE, ring.LEAVING, ring.PENDING, ring.JOINING})
		mk("x"+itoa(k), "ax"+itoa(k)+":1", pick(r, []string{"", "z1"}), st, r.intn(4))
	}
	for _, c := range cfgs {
		if r.chance(1, 4) {
			st := pick(r, []ring.InstanceState{ring.ACTIVE, ring.LEAVING, ring.LEAVING, ring.PENDING, ring.JOINING})
			addr, zone := c.addr, c.zone
			if r.chance(1, 4) {
				addr = "old:9"
			}
			if r.chance(1, 6) {
				zone = "zold"
			}
			mk(c.id, addr, zone, st, r.intn(c.numTokens+2))
		}
	}
	if len(d.Ingesters) == 0 {
		return nil
	}
	return d
}

func c08GenFile(r *rng, nd *node, used map[uint32]bool) string {
	if !nd.cfg.hasFile || r.chance(1, 2) {
		return "a"
	}
	if r.chance(1, 8) {
		_ = os.WriteFile(nd.path, []byte("{\"tokens\":[1,2"), 0o600)
		return "c"
	}
	var t ring.Tokens
	for j := r.intn(nd.cfg.numTokens + 2); j > 0; j-- {
		for {
			x := uint32(r.intn(64))
			if !used[x] {
				used[x] = true
				t = append(t, x)
				break
			}
		}
	}
	if r.chance(3, 4) {
		sort.Sort(t)
	}
	if err := t.StoreToFile(nd.path); err != nil {
		panic(err)
	}
	return nd.fileEnc()
}

const (
	phNew = iota
	phStarting
	phRun
	phStopping
	phStopped
)

type choice struct {
	w  int
	fn func()
}

func c08Case(seed uint64, caseNo int, dir string) (string, bool) {
	r := newRng(seed, uint64(1000+caseNo))
	w := newWorld(r)
	defer w.close()
	cfgs := c08GenCfgs(r)
	used := map[uint32]bool{}
	d0 := c08GenRing(r, cfgs, used)
	var files []string
	for _, c := range cfgs {
		nd := w.addNode(c, dir, caseNo)
		files = append(files, c08GenFile(r, nd, used))
	}
	w.setStore(d0)
	init0 := w.tracked
	budget := 8 + r.intn(34)
	for _, nd := range w.nodes {
		nd.hbOff = nd.cfg.kind == 'B' && r.chance(1, 6) // BasicLifecycler with HeartbeatPeriod = 0
	}
	for s := 0; s < budget && !w.bad; s++ {
		// clock: while some process runs, time advances in small steps and every running lifecycler's
		// heartbeat ticker (period 10 s) fires on time, as the real tickers do; long gaps only while all are down
		anyLive := false
		for _, nd := range w.nodes {
			if nd.lc != nil || nd.blc != nil {
				anyLive = true
			}
		}
		if r.chance(3, 10) {
			if anyLive {
				w.vnow += pick(r, []int64{2, 2, 2, 4, 10})
			} else {
				w.vnow += pick(r, c08Ticks)
			}
		}
		for i, nd := range w.nodes {
			if (nd.lc != nil || nd.blc != nil) && !nd.hbOff && w.vnow-nd.lastHB >= 10 {
				w.fire(i, "hb", "-", "n")
			}
		}
		// prefer starting nodes that have not started yet
		idx := r.intn(len(w.nodes))
		for t := 0; t < 2 && w.nodes[idx].phase != phNew; t++ {
			if r.chance(1, 2) {
				idx = r.intn(len(w.nodes))
			}
		}
		c08Step(w, r, idx, s)
	}
	for _, nd := range w.nodes {
		os.Remove(nd.path)
		os.Remove(nd.path + ".tmp")
	}
	if w.bad {
		return "", false
	}
	var ce []string
	for _, c := range cfgs {
		ce = append(ce, c.enc())
	}
	line := strings.Join([]string{"C08.run", "k" + itoa(caseNo), strings.Join(ce, ";"), strings.Join(files, ";"), init0, strings.Join(w.steps, " ")}, "\t")
	return line, true
}

// c08Step picks one event for node idx following the glue of the real loops (what may fire when).
func c08Step(w *world, r *rng, idx, stepNo int) {
	nd := w.nodes[idx]
	cur := w.current()
	var self *ring.InstanceDesc
	if cur != nil {
		if i, ok := cur.Ingesters[nd.cfg.id]; ok {
			self = &i
		}
	}
	var ch []choice
	add := func(wt int, f func()) { ch = append(ch, choice{wt, f}) }
	lstate := func() ring.InstanceState {
		if nd.lc != nil {
			return nd.lc.GetState()
		}
		return nd.blc.GetState()
	}
	randState := func() string {
		st := lstate()
		legal := map[ring.InstanceState][]ring.InstanceState{ring.PENDING: {ring.JOINING, ring.ACTIVE}, ring.JOINING: {ring.PENDING, ring.ACTIVE},
			ring.ACTIVE: {ring.LEAVING}, ring.LEAVING: {ring.ACTIVE}}
		if l, ok := legal[st]; ok && r.chance(3, 5) {
			return stateCode[pick(r, l)]
		}
		return stateCode[pick(r, []ring.InstanceState{ring.ACTIVE, ring.LEAVING, ring.PENDING, ring.JOINING})]
	}
	startStop := func() {
		nd.phase = phStopping
		nd.stopStep = 0
	}
	switch nd.phase {
	case phNew, phStopped:
		add(10, func() {
			arg := "-"
			if nd.cfg.kind == 'L' {
				arg = "s" + itoa(r.intn(1000))
			}
			ret := w.fire(idx, "init", arg, "n")
			nd.joinFired, nd.wantActive, nd.verified = false, false, false
			if ret != "ok" {
				nd.phase = phStopped
				nd.kill()
				return
			}
			if nd.cfg.kind == 'L' {
				nd.phase = phRun
			} else {
				nd.phase = phStarting
			}
		})
	case phStarting: // BasicLifecycler.starting after registerInstance
		needObserve := nd.cfg.observe && len(nd.blc.GetTokens()) > 0 && !nd.verified
		if needObserve {
			add(6, func() {
				if r.chance(1, 4) {
					w.envSteal(nd.cfg.id, r.chance(1, 2))
				}
				if w.fire(idx, "verify", "-", "n") == "yes" {
					nd.verified = true
				}
			})
			add(2, func() { w.fire(idx, "hb", "-", "n") })
		} else {
			add(8, func() { w.fire(idx, "ontok", "-", "n"); nd.phase = phRun })
		}
		add(1, func() { w.crash(idx); nd.phase = phStopped })
	case phRun:
		if nd.cfg.kind == 'L' {
			if !nd.joinFired {
				add(8, func() { w.fire(idx, "join", "-", "n"); nd.joinFired = true })
			}
			if nd.wantActive {
				add(12, func() { w.fire(idx, "cs", "A", "n"); nd.wantActive = false })
			} else if nd.joinFired && nd.cfg.observe && lstate() == ring.JOINING {
				add(6, func() {
					if r.chance(1, 4) {
						w.envSteal(nd.cfg.id, r.chance(1, 2))
					}
					if w.fire(idx, "verify", "-", "n") == "yes" {
						nd.wantActive = true
					}
				})
			}
			add(4, func() { w.fire(idx, "hb", "-", "n") })
			add(2, func() { w.fire(idx, "xcs", randState(), "n") })
			add(2, func() { w.fire(idx, "ro", b01(r.chance(1, 2)), "n") })
			add(3, func() { w.fire(idx, "ready", "-", "n") })
			if cur != nil && self != nil {
				var cands, ids []string
				for id := range cur.Ingesters {
					ids = append(ids, id)
				}
				sort.Strings(ids)
				for _, id := range ids {
					i := cur.Ingesters[id]
					if id != nd.cfg.id && len(i.Tokens) > 0 && (i.State == ring.LEAVING || r.chance(1, 4)) {
						cands = append(cands, id)
					}
				}
				if len(cands) > 0 {
					add(2, func() { w.fire(idx, "claim", pick(r, cands), "n") })
				}
			}
		} else {
			if !nd.hbOff {
				add(5, func() { w.fire(idx, "hb", "-", "n") })
			}
			add(4, func() { w.fire(idx, "cs", randState(), "n") })
			add(2, func() { w.fire(idx, "ro", b01(r.chance(1, 2)), "n") })
			if r.chance(1, 8) {
				add(1, func() { w.fire(idx, "verify", "-", "n") })
			}
		}
		add(1, startStop)
		add(1, func() { w.crash(idx); nd.phase = phStopped })
	case phStopping:
		if nd.stopStep == 0 {
			add(10, func() {
				if nd.cfg.kind == 'L' {
					w.fire(idx, "cs", "L", "n")
				} else {
					w.fire(idx, "stopd", "-", "n")
				}
				nd.stopStep = 1
			})
		} else {
			add(3, func() { w.fire(idx, "hb", "-", "n") })
			add(5, func() {
				if nd.cfg.unregister {
					w.fire(idx, "unreg", "-", "n")
				}
				w.crash(idx) // the process exits
				nd.phase = phStopped
			})
			add(1, func() { w.crash(idx); nd.phase = phStopped })
		}
	}
	tot := 0
	for _, c := range ch {
		tot += c.w
	}
	x := r.intn(tot)
	for _, c := range ch {
		if x < c.w {
			c.fn()
			return
		}
		x -= c.w
	}
}

func runC08(e *env) {
	n := 3600 * e.scale
	if len(e.args) > 0 {
		n, _ = strconv.Atoi(e.args[0])
	}
	rounds := 1
	if !e.quick {
		rounds = 3
	}
	glue := glueStart(rounds) // real-time glue scenarios run concurrently with the case generation
	loops := loopStart(e.seed, 150*e.scale)
	c08Parallel(e, n, "c08", c08Case)
	for _, l := range glue() {
		e.emit(strings.Split(l, "\t")...)
	}
	for _, l := range loops() {
		if l != "" {
			e.emit(strings.Split(l, "\t")...)
		}
	}
	c08Parallel(e, 120*e.scale, "c08race", c08RaceCase)
}

// c08Parallel runs n cases on all cores and emits them in case order.
func c08Parallel(e *env, n int, tag string, f func(seed uint64, caseNo int, dir string) (string, bool)) {
	dir, err := os.MkdirTemp("", "verif-"+tag+"-")
	if err != nil {
		panic(err)
	}
	defer os.RemoveAll(dir)
	lines := make([]string, n)
	var wg sync.WaitGroup
	next := make(chan int, n)
	for i := 0; i < n; i++ {
		next <- i
	}
	close(next)
	workers := runtime.NumCPU()
	if workers > 12 {
		workers = 12
	}
	for k := 0; k < workers; k++ {
		wg.Add(1)
		go func() {
			defer wg.Done()
			for i := range next {
				for try := 0; try < 5; try++ {
					if l, ok := f(e.seed, i, dir); ok {
						lines[i] = l
						break
					}
				}
			}
		}()
	}
	wg.Wait()
	for _, l := range lines {
		if l != "" {
			e.emit(strings.Split(l, "\t")...)
		}
	}
}

// c08Tables probes Lifecycler.changeState on all 25 (current, requested) pairs.
func c08Tables(e *env) {
	w := newWorld(newRng(1, 1))
	defer w.close()
	dir, _ := os.MkdirTemp("", "verif-c08t-")
	defer os.RemoveAll(dir)
	nd := w.addNode(lcfg{kind: 'L', id: "t", addr: "a:1", numTokens: 1, hbTimeout: 61}, dir, 0)
	var rows []string
	for _, from := range allStates {
		for _, to := range allStates {
			nd.start(w)
			nd.lc.VerifSetState(from)
			err := nd.lc.VerifChangeState(context.Background(), to)
			ok := err == nil && nd.lc.GetState() == to
			rows = append(rows, fmt.Sprintf("(%d, %d, %v)", int(from), int(to), ok))
		}
	}
	fmt.Fprintf(e.w, "/-- (current, requested, accepted) as answered by the running `Lifecycler.changeState` -/\n")
	fmt.Fprintf(e.w, "def changeStateTable : List (Nat × Nat × Bool) :=\n  [%s]\n", strings.Join(rows, ", "))
}
