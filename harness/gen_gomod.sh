#!/bin/sh
# Regenerates go.mod/go.sum of the harness from /repo's so that dependency versions always match.
set -e
cd "$(dirname "$0")"
REPO=${VERIF_REPO:-/repo}
{
  echo "module verifharness"
  echo
  sed -n '/^go /p;/^toolchain /p' "$REPO/go.mod"
  echo
  echo "require github.com/grafana/dskit v0.0.0"
  echo "replace github.com/grafana/dskit => $REPO"
  echo
  # copy require / replace / exclude blocks of the repository verbatim
  awk '/^(require|replace|exclude) \(/{p=1} p{print} /^\)/{p=0} /^(require|replace|exclude) [^(]/{print}' "$REPO/go.mod"
} > go.mod
cp "$REPO/go.sum" go.sum
